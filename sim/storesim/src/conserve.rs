//! C05 oracle: every compaction step conserves the multiset of (key, timestamp, value|tombstone)
//! entries unless it is a top-level garbage collection, and a garbage collection discards only
//! what the configured policy permits and never changes the current value of a key.
//!
//! The policy evaluator below is written from the documentation of `GarbageCollectionPolicy`,
//! not from its implementation.

use std::collections::{BTreeMap, BTreeSet};

use sst::{Cursor, Sst, SstOptions};

use crate::exec::{fmt_key, Exec};

pub type Entry = (Vec<u8>, u64, Option<Vec<u8>>);

#[derive(Clone, Debug)]
pub struct FileDump {
    pub level: usize,
    pub first_key: Vec<u8>,
    pub last_key: Vec<u8>,
    pub entries: Vec<Entry>,
}

pub struct Snapshot {
    pub files: BTreeMap<String, FileDump>,
}

pub fn dump_file(path: &std::path::Path) -> Result<Vec<Entry>, String> {
    let sst = Sst::<sst::file_manager::FileHandle>::new(SstOptions::default(), path)
        .map_err(|e| format!("open {}: {e}", path.display()))?;
    let mut c = sst.cursor();
    c.seek_to_first().map_err(|e| format!("{e}"))?;
    let mut out = Vec::new();
    loop {
        c.next().map_err(|e| format!("{e}"))?;
        match c.key_value() {
            Some(kv) => out.push((kv.key.to_vec(), kv.timestamp, kv.value.map(|v| v.to_vec()))),
            None => break,
        }
    }
    Ok(out)
}

pub fn snapshot(ex: &mut Exec) -> Result<Snapshot, String> {
    let store = ex.store.as_ref().ok_or("store closed")?;
    let levels = store.tree().verif_levels();
    let mut files = BTreeMap::new();
    for (li, l) in levels.iter().enumerate() {
        for f in l.iter() {
            let hex = f.0.hexdigest();
            let entries = match ex.dump_cache.get(&hex) {
                Some(e) => e.clone(),
                None => {
                    let path = ex.root.join("sst").join(format!("{hex}.sst"));
                    let e = dump_file(&path)?;
                    ex.dump_cache.insert(hex.clone(), e.clone());
                    e
                }
            };
            files.insert(
                hex,
                FileDump {
                    level: li,
                    first_key: f.1.clone(),
                    last_key: f.2.clone(),
                    entries,
                },
            );
        }
    }
    Ok(Snapshot { files })
}

////////////////////////////////////////////// policy //////////////////////////////////////////////

#[derive(Clone, Debug, PartialEq, Eq)]
pub enum Policy {
    Versions(u64),
    Ttl(u64),
    Any(Vec<Policy>),
    All(Vec<Policy>),
}

pub fn parse_policy(s: &str) -> Result<Policy, String> {
    fn skip_ws(s: &str) -> &str {
        s.trim_start()
    }
    fn parse(s: &str) -> Result<(Policy, &str), String> {
        let s = skip_ws(s);
        for (kw, is_versions) in [("versions", true), ("ttl_micros", false)] {
            if let Some(rest) = s.strip_prefix(kw) {
                let rest = skip_ws(rest);
                let rest = rest.strip_prefix('=').ok_or("expected =")?;
                let rest = skip_ws(rest);
                let end = rest.find(|c: char| !c.is_ascii_digit()).unwrap_or(rest.len());
                let n: u64 = rest[..end].parse().map_err(|_| "expected number")?;
                return Ok((
                    if is_versions {
                        Policy::Versions(n)
                    } else {
                        Policy::Ttl(n)
                    },
                    &rest[end..],
                ));
            }
        }
        for (kw, is_any) in [("any", true), ("all", false)] {
            if let Some(rest) = s.strip_prefix(kw) {
                let rest = skip_ws(rest);
                let mut rest = rest.strip_prefix('(').ok_or("expected (")?;
                let mut parts = Vec::new();
                loop {
                    rest = skip_ws(rest);
                    if let Some(r) = rest.strip_prefix(')') {
                        rest = r;
                        break;
                    }
                    let (p, r) = parse(rest)?;
                    parts.push(p);
                    rest = skip_ws(r);
                    if let Some(r) = rest.strip_prefix(',') {
                        rest = r;
                    }
                }
                return Ok((
                    if is_any {
                        Policy::Any(parts)
                    } else {
                        Policy::All(parts)
                    },
                    rest,
                ));
            }
        }
        Err(format!("cannot parse policy at {s:?}"))
    }
    let (p, rest) = parse(s)?;
    if !rest.trim().is_empty() {
        return Err(format!("trailing input {rest:?}"));
    }
    Ok(p)
}

/// The *versions* of one key, newest first, as the documentation defines them: a value is a
/// version; of a run of consecutive tombstones only the oldest is a version.
/// Input: the key's entries newest first (timestamp descending).  Output: indices of versions.
fn versions_of(entries: &[(u64, bool)]) -> Vec<usize> {
    let mut out = Vec::new();
    let mut i = 0;
    while i < entries.len() {
        if entries[i].1 {
            out.push(i);
            i += 1;
        } else {
            let mut j = i;
            while j + 1 < entries.len() && !entries[j + 1].1 {
                j += 1;
            }
            out.push(j);
            i = j + 1;
        }
    }
    out
}

/// Indices (into `entries`, newest first) the policy protects.  `entries`: (timestamp, is_value).
fn protected(policy: &Policy, entries: &[(u64, bool)], now: u64) -> BTreeSet<usize> {
    match policy {
        Policy::Versions(n) => versions_of(entries)
            .into_iter()
            .take(*n as usize)
            .collect(),
        Policy::Ttl(m) => {
            let threshold = now.saturating_sub(*m);
            versions_of(entries)
                .into_iter()
                .filter(|i| entries[*i].0 >= threshold)
                .collect()
        }
        Policy::Any(ps) => {
            let mut acc = BTreeSet::new();
            for p in ps {
                acc.extend(protected(p, entries, now));
            }
            acc
        }
        Policy::All(ps) => {
            let mut it = ps.iter();
            let mut acc = match it.next() {
                Some(p) => protected(p, entries, now),
                // the empty conjunction holds for every version
                None => return versions_of(entries).into_iter().collect(),
            };
            for p in it {
                let other = protected(p, entries, now);
                acc = acc.intersection(&other).copied().collect();
            }
            acc
        }
    }
}

/// Entries of one key that the garbage collection must retain.  A protected tombstone with no
/// protected value beneath it shadows nothing at the oldest level and is not required.
fn required(policy: &Policy, entries: &[(u64, bool)]) -> BTreeSet<usize> {
    let mut prot = protected(policy, entries, 0);
    let last_value = prot.iter().copied().filter(|i| entries[*i].1).max();
    prot.retain(|i| entries[*i].1 || last_value.map(|lv| *i < lv).unwrap_or(false));
    prot
}

fn current_value(entries: &[Entry]) -> Option<&Vec<u8>> {
    // entries of one key, any order
    entries
        .iter()
        .max_by_key(|e| e.1)
        .and_then(|e| e.2.as_ref())
}

fn multiset(files: &[&FileDump]) -> Vec<Entry> {
    let mut v: Vec<Entry> = files.iter().flat_map(|f| f.entries.iter().cloned()).collect();
    v.sort();
    v
}

pub fn check_after(ex: &mut Exec, pre: Snapshot) -> Result<(), String> {
    let post = snapshot(ex)?;
    let removed: Vec<&FileDump> = pre
        .files
        .iter()
        .filter(|(k, _)| !post.files.contains_key(*k))
        .map(|(_, v)| v)
        .collect();
    let added: Vec<&FileDump> = post
        .files
        .iter()
        .filter(|(k, _)| !pre.files.contains_key(*k))
        .map(|(_, v)| v)
        .collect();
    if removed.is_empty() && added.is_empty() {
        // trivial move (or an output identical to its input): nothing can have changed
        ex.probes.hit("c05_trivial_moves");
        return Ok(());
    }
    ex.probes.hit("c05_rewriting_compactions");
    if removed.len() >= 2 {
        ex.probes.hit("c05_multi_input_compactions");
    }
    if added.len() >= 2 {
        ex.probes.hit("c05_multi_file_outputs");
        let mut outs: Vec<&&FileDump> = added.iter().collect();
        outs.sort_by(|a, b| a.first_key.cmp(&b.first_key));
        if outs.windows(2).any(|w| w[0].last_key == w[1].first_key) {
            ex.probes.hit("c05_key_versions_straddle_two_outputs");
        }
    }
    let m_in = multiset(&removed);
    let m_out = multiset(&added);
    if m_in == m_out {
        return Ok(());
    }
    let top = crate::exec::NUM_LEVELS - 1;
    // Only a compaction into the top level may discard.  With no output file at all the upper
    // level cannot be read off the result; such a step is judged by the GC rules below.
    let is_gc = added.iter().all(|f| f.level == top);
    let describe = |e: &Entry| {
        format!(
            "{}@{}={}",
            fmt_key(&e.0),
            e.1,
            match &e.2 {
                Some(v) => format!("value({}B)", v.len()),
                None => "tombstone".to_string(),
            }
        )
    };
    // entries invented or modified: out must be a sub-multiset of in
    {
        let mut pool: BTreeMap<&Entry, i64> = BTreeMap::new();
        for e in m_in.iter() {
            *pool.entry(e).or_insert(0) += 1;
        }
        for e in m_out.iter() {
            let c = pool.entry(e).or_insert(0);
            *c -= 1;
            if *c < 0 {
                ex.violate(
                    "C05",
                    if is_gc { "gc-output-has-entry-not-in-inputs" } else { "compaction-output-has-entry-not-in-inputs" },
                    format!("output entry {} is not among the inputs", describe(e)),
                );
                return Ok(());
            }
        }
    }
    if !is_gc {
        let lost: Vec<String> = m_in
            .iter()
            .filter(|e| !m_out.contains(e))
            .take(3)
            .map(describe)
            .collect();
        ex.violate(
            "C05",
            "non-gc-compaction-lost-entries",
            format!(
                "compaction below the top level changed the multiset: {} entries in, {} out; lost e.g. {:?}",
                m_in.len(),
                m_out.len(),
                lost
            ),
        );
        return Ok(());
    }
    ex.probes.hit("c05_gcs_with_discard");
    // A top-level file that did not change but overlaps the compaction's key range was an input
    // whose output came out identical; it takes part in the per-key version counts.
    let lo = removed.iter().map(|f| &f.first_key).min().cloned().unwrap_or_default();
    let hi = removed.iter().map(|f| &f.last_key).max().cloned().unwrap_or_default();
    let unchanged: Vec<&FileDump> = post
        .files
        .iter()
        .filter(|(k, f)| pre.files.contains_key(*k) && f.level == top && f.first_key <= hi && lo <= f.last_key)
        .map(|(_, v)| v)
        .collect();
    let mut ins: Vec<&FileDump> = removed.clone();
    ins.extend(unchanged.iter().copied());
    let mut outs: Vec<&FileDump> = added.clone();
    outs.extend(unchanged.iter().copied());
    let mut by_key_in: BTreeMap<Vec<u8>, Vec<Entry>> = BTreeMap::new();
    for e in multiset(&ins) {
        by_key_in.entry(e.0.clone()).or_default().push(e);
    }
    let mut by_key_out: BTreeMap<Vec<u8>, Vec<Entry>> = BTreeMap::new();
    for e in multiset(&outs) {
        by_key_out.entry(e.0.clone()).or_default().push(e);
    }
    let policy_str = ex.h.opt("--gc-policy").unwrap_or("versions = 1").to_string();
    let policy = parse_policy(&policy_str)?;
    for (key, ents) in by_key_in.iter_mut() {
        ents.sort_by(|a, b| b.1.cmp(&a.1));
        let shape: Vec<(u64, bool)> = ents.iter().map(|e| (e.1, e.2.is_some())).collect();
        let req = required(&policy, &shape);
        let empty = Vec::new();
        let out = by_key_out.get(key).unwrap_or(&empty);
        for i in req.iter() {
            if !out.contains(&ents[*i]) {
                ex.violate(
                    "C05",
                    "gc-dropped-entry-the-policy-protects",
                    format!(
                        "policy `{policy_str}` protects {} (key history newest-first: {:?}) but the garbage collection discarded it",
                        describe(&ents[*i]),
                        shape
                    ),
                );
                return Ok(());
            }
        }
        let before = current_value(ents);
        let after = current_value(out);
        if before != after {
            ex.violate(
                "C05",
                "gc-changed-current-value",
                format!(
                    "key {}: current value before the garbage collection {:?}B, after {:?}B (policy `{policy_str}`)",
                    fmt_key(key),
                    before.map(|v| v.len()),
                    after.map(|v| v.len())
                ),
            );
            return Ok(());
        }
        if shape.len() >= 3 {
            ex.probes.hit("c05_gc_keys_with_3plus_versions");
        }
    }
    Ok(())
}
