//! C05 oracle: multiset conservation across compaction; GC policy evaluator.
use crate::exec::Exec;

pub struct Snapshot {}

pub fn snapshot(_ex: &mut Exec) -> Result<Snapshot, String> { Ok(Snapshot{}) }
pub fn check_after(_ex: &mut Exec, _pre: Snapshot) -> Result<(), String> { Ok(()) }
