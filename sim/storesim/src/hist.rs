//! Histories: configuration + key universe + operation list.  A history is the unit of replay
//! and of minimisation; it is a pure function of (seed, profile).

use serde::{Deserialize, Serialize};

use crate::rng::Rng;

pub mod hexbytes {
    use serde::{Deserialize, Deserializer, Serializer};

    pub fn to_hex(b: &[u8]) -> String {
        let mut s = String::with_capacity(b.len() * 2);
        for x in b {
            s.push_str(&format!("{x:02x}"));
        }
        s
    }

    pub fn from_hex(s: &str) -> Option<Vec<u8>> {
        if s.len() % 2 != 0 {
            return None;
        }
        (0..s.len() / 2)
            .map(|i| u8::from_str_radix(&s[2 * i..2 * i + 2], 16).ok())
            .collect()
    }

    pub fn serialize<S: Serializer>(b: &Vec<u8>, s: S) -> Result<S::Ok, S::Error> {
        s.serialize_str(&to_hex(b))
    }

    pub fn deserialize<'de, D: Deserializer<'de>>(d: D) -> Result<Vec<u8>, D::Error> {
        let s = String::deserialize(d)?;
        from_hex(&s).ok_or_else(|| serde::de::Error::custom("bad hex"))
    }
}

#[derive(Clone, Debug, PartialEq, Eq, Serialize, Deserialize)]
pub struct HexKey(#[serde(with = "hexbytes")] pub Vec<u8>);

#[derive(Clone, Copy, Debug, PartialEq, Eq, Serialize, Deserialize)]
pub enum Mode {
    Kvs,
    Tree,
}

#[derive(Clone, Debug, PartialEq, Eq, Serialize, Deserialize)]
pub enum Bnd {
    Unb,
    Inc(HexKey),
    Exc(HexKey),
}

#[derive(Clone, Debug, PartialEq, Eq, Serialize, Deserialize)]
pub enum Cur {
    First,
    Last,
    Seek(HexKey),
    Next,
    Prev,
}

/// One entry of a batch / ingested table: key index and Some(value length) or None for delete.
pub type Ent = (usize, Option<usize>);

#[derive(Clone, Debug, PartialEq, Eq, Serialize, Deserialize)]
pub enum Op {
    Put { k: usize, vlen: usize },
    Del { k: usize },
    Batch { ents: Vec<Ent> },
    Get { k: usize },
    Scan { lo: Bnd, hi: Bnd, prog: Vec<Cur> },
    Hold { slot: usize, lo: Bnd, hi: Bnd },
    HoldUse { slot: usize, prog: Vec<Cur> },
    HoldDrop { slot: usize },
    Flush,
    Compact,
    /// up to `n` consecutive units of compaction work (stops early when idle): the compaction
    /// thread got a long turn, e.g. sinking a table through many empty levels by trivial moves
    CompactMany { n: usize },
    Verify,
    Reopen,
    Ingest { ents: Vec<Ent> },
    /// Ingest once more a table with exactly the entries and timestamps of the ingest at operation
    /// `of` (same digest).  Only in the profile `tree-verify`, which is judged on the books and
    /// the verifier, not on reads.
    Reingest { of: usize },
}

impl Op {
    pub fn kind(&self) -> &'static str {
        match self {
            Op::Put { .. } => "put",
            Op::Del { .. } => "del",
            Op::Batch { .. } => "batch",
            Op::Get { .. } => "get",
            Op::Scan { .. } => "scan",
            Op::Hold { .. } => "hold",
            Op::HoldUse { .. } => "hold_use",
            Op::HoldDrop { .. } => "hold_drop",
            Op::Flush => "flush",
            Op::Compact => "compact",
            Op::CompactMany { .. } => "compact",
            Op::Verify => "verify",
            Op::Reopen => "reopen",
            Op::Ingest { .. } => "ingest",
            Op::Reingest { .. } => "ingest",
        }
    }

    pub fn is_client_write(&self) -> bool {
        matches!(
            self,
            Op::Put { .. } | Op::Del { .. } | Op::Batch { .. } | Op::Ingest { .. }
        )
    }
}

#[derive(Clone, Debug, PartialEq, Eq, Serialize, Deserialize)]
pub struct History {
    pub seed: u64,
    pub profile: String,
    pub mode: Mode,
    /// Options for `LsmtkOptions::from_arguments_relaxed`, without `--path`.
    pub opts: Vec<(String, String)>,
    pub keys: Vec<HexKey>,
    pub ops: Vec<Op>,
}

impl History {
    pub fn opt(&self, name: &str) -> Option<&str> {
        self.opts
            .iter()
            .find(|(n, _)| n == name)
            .map(|(_, v)| v.as_str())
    }

    pub fn summary(&self) -> String {
        let mut counts = std::collections::BTreeMap::new();
        for op in self.ops.iter() {
            *counts.entry(op.kind()).or_insert(0usize) += 1;
        }
        format!(
            "seed={} mode={:?} keys={} ops={} {:?}",
            self.seed,
            self.mode,
            self.keys.len(),
            self.ops.len(),
            counts
        )
    }
}

/// The unique value written by entry `sub` of operation `op_index`.
/// `vlen == EMPTY_VALUE` stands for the zero-length value (every other value carries the unique
/// "<op>.<sub>:" prefix of at least eight bytes, so lengths 1..7 are otherwise unused).
pub const EMPTY_VALUE: usize = 1;

pub fn value_for(op_index: usize, sub: usize, vlen: usize) -> Vec<u8> {
    if vlen == EMPTY_VALUE {
        return Vec::new();
    }
    let mut v = format!("{op_index:05}.{sub}:").into_bytes();
    let mut j = 0usize;
    while v.len() < vlen {
        v.push(b'a' + ((op_index * 7 + sub * 3 + j) % 26) as u8);
        j += 1;
    }
    v
}

/// Generation profile: which op kinds are enabled and how the mix is biased.
#[derive(Clone, Debug)]
pub struct Profile {
    pub name: &'static str,
    pub mode: Mode,
    pub min_ops: usize,
    pub max_ops: usize,
    pub scans: bool,
    pub holds: bool,
    pub verify: bool,
    pub reopen: bool,
    pub deletes: bool,
    pub batches: bool,
    /// small max_open_files / cache (C07, C20)
    pub tight_files: bool,
    /// thresholds drawn without the ordering mandatory <= stall < max_compaction_files
    pub adversarial_thresholds: bool,
    pub gc_variety: bool,
    /// options forced to a value after the seeded draw (replacing any drawn value)
    pub force_opts: Vec<(&'static str, &'static str)>,
    /// multiply the drawn weight of verifier passes by this
    pub verify_boost: u32,
}

impl Profile {
    pub fn by_name(name: &str) -> Option<Profile> {
        let base = Profile {
            name: "kvs",
            mode: Mode::Kvs,
            min_ops: 20,
            max_ops: 120,
            scans: true,
            holds: false,
            verify: true,
            reopen: true,
            deletes: true,
            batches: true,
            tight_files: false,
            adversarial_thresholds: false,
            gc_variety: true,
            force_opts: vec![],
            verify_boost: 1,
        };
        Some(match name {
            "kvs" => base,
            "tree" => Profile {
                name: "tree",
                mode: Mode::Tree,
                ..base
            },
            // Long histories with many reopen cycles: deep trees through the key-value API.
            "kvs-deep" => Profile {
                name: "kvs-deep",
                min_ops: 150,
                max_ops: 400,
                scans: false,
                verify: false,
                force_opts: vec![("--memtable-size-bytes", "64")],
                ..base
            },
            "kvs-short" => Profile {
                name: "kvs-short",
                min_ops: 8,
                max_ops: 40,
                scans: false,
                ..base
            },
            "kvs-hold" => Profile {
                name: "kvs-hold",
                holds: true,
                min_ops: 15,
                max_ops: 70,
                ..base
            },
            "kvs-hold-tight" => Profile {
                name: "kvs-hold-tight",
                holds: true,
                tight_files: true,
                min_ops: 15,
                max_ops: 70,
                ..base
            },
            // Held cursors across compactions, manifest rollovers and verifier passes with no
            // table cache: a lazily opened file has to be found by path long after it was retired.
            "kvs-hold-verify" => Profile {
                name: "kvs-hold-verify",
                holds: true,
                reopen: false,
                scans: false,
                min_ops: 30,
                max_ops: 110,
                force_opts: vec![
                    ("--sst-cache-bytes", "0"),
                    ("--mani-log-rollover-ratio", "0"),
                    ("--memtable-size-bytes", "64"),
                    ("--l0-mandatory-compaction-threshold-files", "2"),
                    ("--sst-target-file-size", "4096"),
                    ("--sst-minimum-file-size", "4096"),
                ],
                verify_boost: 6,
                ..base
            },
            "tree-hold-verify" => Profile {
                name: "tree-hold-verify",
                mode: Mode::Tree,
                holds: true,
                reopen: false,
                scans: false,
                min_ops: 30,
                max_ops: 110,
                force_opts: vec![
                    ("--sst-cache-bytes", "0"),
                    ("--mani-log-rollover-ratio", "0"),
                    ("--l0-mandatory-compaction-threshold-files", "2"),
                    ("--sst-target-file-size", "4096"),
                    ("--sst-minimum-file-size", "4096"),
                ],
                verify_boost: 6,
                ..base
            },
            // Many one- or two-entry tables piling up between compactions and no reopen: the
            // shapes in which a compaction spans three or more sparsely filled levels.
            "kvs-pile" => Profile {
                name: "kvs-pile",
                min_ops: 40,
                max_ops: 160,
                scans: true,
                verify: false,
                reopen: false,
                gc_variety: false,
                force_opts: vec![
                    ("--memtable-size-bytes", "0"),
                    ("--l0-mandatory-compaction-threshold-files", "2"),
                    ("--max-compaction-files", "64"),
                ],
                ..base
            },
            // Short histories with exactly one write batch as large as the log accepts (1 MiB,
            // 34 values of up to 32 KiB over keys of their own): the frame that meets the log's
            // block boundary and its write buffer.
            "kvs-big" => Profile {
                name: "kvs-big",
                min_ops: 5,
                max_ops: 14,
                scans: false,
                verify: false,
                ..base
            },
            // Verifier passes between transactions that sit in the live manifest: a middling
            // rollover ratio, many verifier passes, compactions that re-create earlier tables.
            "tree-verify" => Profile {
                name: "tree-verify",
                mode: Mode::Tree,
                min_ops: 30,
                max_ops: 110,
                scans: false,
                reopen: false,
                verify_boost: 8,
                gc_variety: false,
                force_opts: vec![("--mani-log-rollover-ratio", "3"), ("--sst-target-file-size", "4096"), ("--sst-minimum-file-size", "2048")],
                ..base
            },
            // Many versions of very few keys in small tables: a key's versions straddle two
            // outputs of one compaction, so sibling tables share boundary keys.
            "tree-straddle" => Profile {
                name: "tree-straddle",
                mode: Mode::Tree,
                min_ops: 25,
                max_ops: 90,
                scans: true,
                verify: false,
                reopen: false,
                force_opts: vec![("--sst-target-file-size", "4096"), ("--sst-minimum-file-size", "2048"), ("--gc-policy", "versions = 6")],
                ..base
            },
            // Not a generator of its own: every history is a stored history of a repaired defect
            // (or of /verif/corpus) with a few seeded mutations, see `corpus_mutant`.
            "corpus" => Profile { name: "corpus", ..base },
            // Ingest after ingest with hardly a voluntary compaction turn, so that the stall
            // threshold alone sinks tables one level at a time until all sixteen levels hold one,
            // then a long compaction turn that has to merge through the tower.  Small target
            // files and long values make multi-table outputs (siblings sharing a boundary key).
            "tree-tower" => Profile {
                name: "tree-tower",
                mode: Mode::Tree,
                min_ops: 24,
                max_ops: 64,
                scans: true,
                verify: true,
                reopen: false,
                force_opts: vec![("--sst-target-file-size", "4096"), ("--sst-minimum-file-size", "4096")],
                ..base
            },
            "kvs-stall" => Profile {
                name: "kvs-stall",
                adversarial_thresholds: true,
                scans: false,
                verify: false,
                min_ops: 20,
                max_ops: 100,
                ..base
            },
            // tree-stall with a small max_open_files on top (finding F-C20-4)
            "tree-stall-tight" => Profile {
                name: "tree-stall-tight",
                mode: Mode::Tree,
                adversarial_thresholds: true,
                tight_files: true,
                scans: false,
                verify: false,
                min_ops: 20,
                max_ops: 70,
                ..base
            },
            "tree-stall" => Profile {
                name: "tree-stall",
                mode: Mode::Tree,
                adversarial_thresholds: true,
                scans: false,
                verify: false,
                min_ops: 10,
                max_ops: 60,
                ..base
            },
            _ => return None,
        })
    }
}

fn key_universe(rng: &mut Rng) -> Vec<Vec<u8>> {
    // Adversarial pool: empty key, 0x00, 0xff, MAX_KEY (eleven 0xff), keys that are prefixes of
    // one another, keys differing in the last byte, long shared prefixes.
    let long = vec![b'p'; 40];
    let mut long_a = long.clone();
    long_a.push(b'a');
    let mut long_b = long.clone();
    long_b.push(b'b');
    let pool: Vec<Vec<u8>> = vec![
        vec![],
        vec![0x00],
        vec![0x00, 0x00],
        vec![0xff],
        vec![0xff; 11],
        vec![0xff; 12],
        b"a".to_vec(),
        b"ab".to_vec(),
        b"abc".to_vec(),
        b"abd".to_vec(),
        b"b".to_vec(),
        b"k1".to_vec(),
        b"k2".to_vec(),
        b"k3".to_vec(),
        b"m".to_vec(),
        b"m\x00".to_vec(),
        long,
        long_a,
        long_b,
        b"z".to_vec(),
        b"zz".to_vec(),
    ];
    let n = rng.range(4, 14) as usize;
    let mut idx: Vec<usize> = (0..pool.len()).collect();
    // partial Fisher-Yates
    for i in 0..n.min(pool.len()) {
        let j = i + rng.usize_below(pool.len() - i);
        idx.swap(i, j);
    }
    let mut keys: Vec<Vec<u8>> = idx[..n].iter().map(|i| pool[*i].clone()).collect();
    // one history in five: a key of the maximum length (16 KiB), and often its shorter sibling
    if rng.chance(1, 5) {
        keys.push(vec![b'q'; sst::MAX_KEY_LEN]);
        if rng.chance(1, 2) {
            let mut k = vec![b'q'; sst::MAX_KEY_LEN - 1];
            *k.last_mut().unwrap() = b'r';
            keys.push(k);
        }
    }
    keys.sort();
    keys
}

/// A key near the universe: a member, a member with a byte appended, or a member with its last
/// byte decremented.  Used for bounds and seek targets so that empty and inverted ranges occur.
fn near_key(rng: &mut Rng, keys: &[Vec<u8>]) -> Vec<u8> {
    let mut k = rng.pick(keys).clone();
    if k.len() >= sst::MAX_KEY_LEN {
        // nothing longer than the longest permitted key
        if rng.chance(1, 2) {
            k.pop();
        }
        return k;
    }
    match rng.below(6) {
        0 => {
            k.push(0x00);
        }
        1 => {
            if let Some(last) = k.last_mut() {
                if *last > 0 {
                    *last -= 1;
                } else {
                    k.pop();
                }
            }
        }
        2 => {
            k.push(0xff);
        }
        _ => {}
    }
    k
}

fn gen_bound(rng: &mut Rng, keys: &[Vec<u8>]) -> Bnd {
    match rng.below(5) {
        0 | 1 => Bnd::Unb,
        2 | 3 => Bnd::Inc(HexKey(near_key(rng, keys))),
        _ => Bnd::Exc(HexKey(near_key(rng, keys))),
    }
}

fn gen_prog(rng: &mut Rng, keys: &[Vec<u8>], max_len: u64) -> Vec<Cur> {
    let n = rng.range(3, max_len) as usize;
    let mut prog = Vec::with_capacity(n);
    // A programme always starts by positioning.
    prog.push(match rng.below(3) {
        0 => Cur::First,
        1 => Cur::Last,
        _ => Cur::Seek(HexKey(near_key(rng, keys))),
    });
    // Direction-biased walk so that long forward and backward runs and reversals all occur.
    let mut forward = rng.chance(1, 2);
    while prog.len() < n {
        match rng.below(20) {
            0 => prog.push(Cur::First),
            1 => prog.push(Cur::Last),
            2 | 3 => prog.push(Cur::Seek(HexKey(near_key(rng, keys)))),
            4 | 5 => {
                forward = !forward;
            }
            _ => prog.push(if forward { Cur::Next } else { Cur::Prev }),
        }
    }
    prog
}

fn gen_vlen(rng: &mut Rng, big_values: bool) -> usize {
    if big_values {
        match rng.below(10) {
            0 => *rng.pick(&[0usize, EMPTY_VALUE, EMPTY_VALUE, sst::MAX_VALUE_LEN]),
            1 | 2 => rng.range(8, 40) as usize,
            _ => rng.range(300, 900) as usize,
        }
    } else {
        match rng.below(10) {
            0 => *rng.pick(&[0usize, EMPTY_VALUE]),
            1..=6 => rng.range(8, 40) as usize,
            _ => rng.range(100, 900) as usize,
        }
    }
}

fn gen_gc_policy(rng: &mut Rng, depth: u32) -> String {
    let leaf = |rng: &mut Rng| -> String {
        if rng.chance(3, 4) {
            format!("versions = {}", rng.range(1, 3))
        } else {
            format!("ttl_micros = {}", rng.range(1, 50))
        }
    };
    if depth == 0 || rng.chance(1, 2) {
        return leaf(rng);
    }
    // The policy language allows empty lists.  `all()` keeps every version and is generated;
    // `any()` keeps nothing, current values included: for it the two clauses of C05 (only what the
    // policy allows / never the entry that decides the current value) contradict each other, so
    // it is left out rather than judged.
    let n = if rng.chance(1, 6) { 0 } else { rng.range(1, 3) };
    let parts: Vec<String> = (0..n).map(|_| gen_gc_policy(rng, depth - 1)).collect();
    if n > 0 && rng.chance(1, 2) {
        format!("any({})", parts.join(", "))
    } else {
        format!("all({})", parts.join(", "))
    }
}

fn gen_opts(rng: &mut Rng, p: &Profile) -> (Vec<(String, String)>, bool) {
    let mut o: Vec<(String, String)> = Vec::new();
    let mut push = |k: &str, v: String| o.push((k.to_string(), v));
    push("--mani-log-rollover-ratio", rng.pick(&[0u64, 1, 2, 2, 8]).to_string());
    // sst options (canonical order: block opts, target-block-size, target-file-size, ...)
    if rng.chance(1, 2) {
        push(
            "--sst-block-bytes-restart-interval",
            rng.pick(&[1u64, 2, 16, 512]).to_string(),
        );
    }
    if rng.chance(1, 2) {
        push(
            "--sst-block-key-value-pairs-restart-interval",
            rng.pick(&[1u64, 2, 16]).to_string(),
        );
    }
    if rng.chance(1, 3) {
        push("--sst-target-block-size", "16384".to_string());
    }
    let small_files = rng.chance(3, 4);
    if small_files {
        push(
            "--sst-target-file-size",
            rng.pick(&[4096u64, 4096, 8192, 65536]).to_string(),
        );
        push(
            "--sst-minimum-file-size",
            rng.pick(&[4096u64, 4096, 8192]).to_string(),
        );
    }
    if rng.chance(1, 2) {
        push("--sst-bloom-filter-bits", rng.pick(&[0u64, 1, 17]).to_string());
    }
    if p.tight_files {
        push("--max-open-files", rng.pick(&[4u64, 6, 8, 16]).to_string());
    }
    if rng.chance(1, 4) {
        push(
            "--max-compaction-bytes",
            rng.pick(&[8192u64, 16384, 65536]).to_string(),
        );
    }
    if p.adversarial_thresholds {
        push(
            "--max-compaction-files",
            rng.pick(&[1u64, 2, 3, 4, 8, 64]).to_string(),
        );
        push(
            "--l0-mandatory-compaction-threshold-files",
            rng.range(1, 6).to_string(),
        );
        if rng.chance(1, 3) {
            push(
                "--l0-mandatory-compaction-threshold-bytes",
                rng.pick(&[4096u64, 16384]).to_string(),
            );
        }
        push(
            "--l0-write-stall-threshold-files",
            rng.pick(&[1u64, 2, 3, 4, 6, 12]).to_string(),
        );
        if rng.chance(1, 3) {
            push(
                "--l0-write-stall-threshold-bytes",
                rng.pick(&[4096u64, 16384, 65536]).to_string(),
            );
        }
    } else {
        // ordered: mandatory <= stall < max_compaction_files
        let mandatory = rng.range(1, 6);
        let stall = mandatory + rng.range(0, 6);
        let mcf = *rng.pick(&[stall + 1, stall + 2, 64, 64]);
        push("--max-compaction-files", mcf.max(2).to_string());
        push(
            "--l0-mandatory-compaction-threshold-files",
            mandatory.to_string(),
        );
        if rng.chance(1, 4) {
            push(
                "--l0-mandatory-compaction-threshold-bytes",
                rng.pick(&[8192u64, 32768]).to_string(),
            );
        }
        push("--l0-write-stall-threshold-files", stall.max(2).to_string());
    }
    push(
        "--memtable-size-bytes",
        rng.pick(&[0u64, 1, 64, 256, 256, 1024, 1024, 4096, 1 << 20])
            .to_string(),
    );
    if p.gc_variety && rng.chance(2, 3) {
        push("--gc-policy", gen_gc_policy(rng, 2));
    }
    if p.tight_files || rng.chance(1, 2) {
        push(
            "--sst-cache-bytes",
            rng.pick(&[0u64, 1024, 65536]).to_string(),
        );
    }
    for (k, v) in p.force_opts.iter() {
        o.retain(|(kk, _)| kk != k);
        o.push((k.to_string(), v.to_string()));
    }
    (o, small_files)
}

/// A batch over the 34 keys from `first_big` on whose encoded size is the largest the log accepts
/// minus `slack` bytes.  Sequence numbers below 128 (every history of this profile) encode in one
/// byte, so the size does not depend on where the batch sits in the history.
fn big_batch(first_big: usize, keys: &[Vec<u8>], slack: u64) -> Op {
    use sst::Builder;
    let limit = 1u64 << 20;
    let mut ents: Vec<Ent> = Vec::new();
    let mut wb = sst::log::WriteBatch::default();
    let full = 32_000usize;
    for (j, key) in keys[first_big..].iter().enumerate() {
        let fits = |wb: &sst::log::WriteBatch, l: usize| -> Option<u64> {
            let mut t = wb.clone();
            t.put(key, 1, &vec![0u8; l]).ok()?;
            Some(t.approximate_size() as u64)
        };
        let target = limit - slack;
        match fits(&wb, full) {
            Some(sz) if sz + 64 < target => {
                wb.put(key, 1, &vec![0u8; full]).expect("sized above");
                ents.push((first_big + j, Some(full)));
            }
            _ => {
                // the last entry: the value length that makes the batch exactly `target` bytes
                for l in (8..=full).rev() {
                    if fits(&wb, l) == Some(target) {
                        wb.put(key, 1, &vec![0u8; l]).expect("sized above");
                        ents.push((first_big + j, Some(l)));
                        break;
                    }
                }
                break;
            }
        }
    }
    Op::Batch { ents }
}

/// Generate one history from a seed and a profile.
pub fn generate(seed: u64, p: &Profile) -> History {
    let mut rng = Rng::new(crate::rng::mix(&[seed, crate::rng::str_seed(p.name)]));
    if p.name == "corpus" {
        if let Some(h) = corpus_mutant(seed, &mut rng) {
            return h;
        }
    }
    let mut keys = key_universe(&mut rng);
    if p.name == "tree-straddle" {
        keys.retain(|k| k.len() < 64);
        keys.truncate(3);
    }
    let (opts, small_files) = gen_opts(&mut rng, p);
    let nops = rng.range(p.min_ops as u64, p.max_ops as u64) as usize;
    // Per-run op mix (swarm): weights for
    // [put, del, batch, get, scan, flush, compact, verify, reopen, hold, hold_use, hold_drop]
    let mut w = [
        rng.range(10, 40) as u32, // put
        if p.deletes { rng.range(0, 15) as u32 } else { 0 },
        if p.batches { rng.range(0, 12) as u32 } else { 0 },
        rng.range(0, 6) as u32,                                // get
        if p.scans { rng.range(0, 8) as u32 } else { 0 },      // scan
        rng.range(2, 14) as u32,                               // flush
        rng.range(2, 20) as u32,                               // compact
        if p.verify { rng.range(0, 4) as u32 * p.verify_boost + (p.verify_boost - 1) } else { 0 }, // verify
        if p.reopen { rng.range(0, 5) as u32 } else { 0 },     // reopen
        if p.holds { rng.range(2, 8) as u32 } else { 0 },      // hold
        if p.holds { rng.range(4, 14) as u32 } else { 0 },     // hold_use
        if p.holds { rng.range(0, 3) as u32 } else { 0 },      // hold_drop
    ];
    if p.name == "kvs-pile" {
        // a flush after nearly every write, compaction steps rarer than flushes
        w[2] = w[2].min(3);
        w[5] = w[0] + w[1];
        w[6] = rng.range(2, 10) as u32;
    }
    if p.mode == Mode::Tree {
        // In tree mode the only writer is ingest (mapped onto "batch"), there is no memtable.
        w[0] = 0;
        w[1] = 0;
        w[2] = rng.range(10, 40) as u32;
        w[5] = 0;
    }
    if p.name == "tree-tower" {
        w[3] = rng.range(0, 2) as u32; // get
        w[4] = rng.range(0, 1) as u32; // scan
        w[6] = rng.range(0, 3) as u32; // compact
        w[7] = rng.range(0, 1) as u32; // verify
        w[2] = 40;
    }
    let forced_small = p.force_opts.iter().any(|(k, v)| *k == "--sst-target-file-size" && *v == "4096");
    let big_values = forced_small || (small_files && rng.chance(2, 3));
    // A hot subset of keys gets most of the writes so that many versions of one key exist.
    let hot: Vec<usize> = (0..rng.range(1, 3))
        .map(|_| rng.usize_below(keys.len()))
        .collect();
    let pick_key = |rng: &mut Rng| -> usize {
        if rng.chance(1, 2) {
            *rng.pick(&hot)
        } else {
            rng.usize_below(keys.len())
        }
    };
    // Per-run share (in quarters) of compaction turns that are long ones.
    let long_turns = *rng.pick(&[0u64, 1, 3]);
    // Per-run: do write batches repeat keys?
    let repeat_keys = p.mode == Mode::Kvs && rng.chance(1, 4);
    let mut ops = Vec::with_capacity(nops);
    let mut slots_open = [false; 3];
    while ops.len() < nops {
        let op = match rng.weighted(&w) {
            0 => Op::Put {
                k: pick_key(&mut rng),
                vlen: gen_vlen(&mut rng, big_values),
            },
            1 => Op::Del {
                k: pick_key(&mut rng),
            },
            2 => {
                let n = rng.range(1, 5.min(keys.len() as u64)) as usize;
                let mut ks: Vec<usize> = Vec::new();
                while ks.len() < n {
                    let k = pick_key(&mut rng);
                    // a batch may name a key more than once (the last entry wins); only through
                    // the key-value API: an ingested table cannot hold one (key, timestamp) twice
                    if !ks.contains(&k) || (repeat_keys && rng.chance(1, 2)) {
                        ks.push(k);
                    }
                }
                let ents: Vec<Ent> = ks
                    .into_iter()
                    .map(|k| {
                        if p.deletes && rng.chance(1, 4) {
                            (k, None)
                        } else {
                            (k, Some(gen_vlen(&mut rng, big_values)))
                        }
                    })
                    .collect();
                if p.mode == Mode::Tree {
                    let earlier: Vec<usize> = ops.iter().enumerate().filter(|(_, o)| matches!(o, Op::Ingest { .. })).map(|(i, _)| i).collect();
                    if p.name == "tree-verify" && !earlier.is_empty() && rng.chance(1, 3) {
                        Op::Reingest { of: *rng.pick(&earlier) }
                    } else {
                        Op::Ingest { ents }
                    }
                } else {
                    Op::Batch { ents }
                }
            }
            3 => Op::Get {
                k: rng.usize_below(keys.len()),
            },
            4 => Op::Scan {
                lo: gen_bound(&mut rng, &keys),
                hi: gen_bound(&mut rng, &keys),
                prog: gen_prog(&mut rng, &keys, 40),
            },
            5 => Op::Flush,
            6 => {
                if rng.chance(long_turns, 4) {
                    Op::CompactMany { n: *rng.pick(&[3usize, 8, 20, 48]) }
                } else {
                    Op::Compact
                }
            }
            7 => Op::Verify,
            8 => Op::Reopen,
            9 => {
                let slot = rng.usize_below(3);
                if slots_open[slot] {
                    continue;
                }
                slots_open[slot] = true;
                Op::Hold {
                    slot,
                    lo: if rng.chance(2, 3) {
                        Bnd::Unb
                    } else {
                        gen_bound(&mut rng, &keys)
                    },
                    hi: if rng.chance(2, 3) {
                        Bnd::Unb
                    } else {
                        gen_bound(&mut rng, &keys)
                    },
                }
            }
            10 => {
                let open: Vec<usize> = (0..3).filter(|s| slots_open[*s]).collect();
                if open.is_empty() {
                    continue;
                }
                Op::HoldUse {
                    slot: *rng.pick(&open),
                    prog: gen_prog(&mut rng, &keys, 16),
                }
            }
            _ => {
                let open: Vec<usize> = (0..3).filter(|s| slots_open[*s]).collect();
                if open.is_empty() {
                    continue;
                }
                let slot = *rng.pick(&open);
                slots_open[slot] = false;
                Op::HoldDrop { slot }
            }
        };
        if matches!(op, Op::Reopen) {
            slots_open = [false; 3];
        }
        ops.push(op);
    }
    if p.name == "tree-tower" {
        ops.push(Op::CompactMany { n: 48 });
        ops.push(Op::Get { k: 0 });
    }
    let mut keys = keys;
    if p.name == "kvs-big" {
        let first_big = keys.len();
        for j in 0..34 {
            keys.push(format!("~big{j:02}").into_bytes());
        }
        let at = rng.usize_below(ops.len() + 1);
        let slack = *rng.pick(&[0u64, 0, 1, 2, 3, 5, 8, 13, 21, 40]);
        ops.insert(at, big_batch(first_big, &keys, slack));
    }
    History {
        seed,
        profile: p.name.to_string(),
        mode: p.mode,
        opts,
        keys: keys.into_iter().map(HexKey).collect(),
        ops,
    }
}

///////////////////////////////////////////// corpus ///////////////////////////////////////////////

/// Stored histories used as starting points: the replays of repaired defects (`*-fixed-*.json`
/// under the first directory) and everything under the second.  Sorted by file name, so the corpus
/// is the same list on every run.  `STORESIM_CORPUS` = "dir1:dir2" overrides the directories,
/// `STORESIM_CORPUS_EXCLUDE` = substring leaves files out (sensitivity tests).
pub fn corpus() -> &'static Vec<(String, History)> {
    static CORPUS: std::sync::OnceLock<Vec<(String, History)>> = std::sync::OnceLock::new();
    CORPUS.get_or_init(|| {
        let dirs = std::env::var("STORESIM_CORPUS").unwrap_or_else(|_| "/verif/replays:/verif/corpus".to_string());
        let exclude = std::env::var("STORESIM_CORPUS_EXCLUDE").ok();
        let mut out = Vec::new();
        for (di, dir) in dirs.split(':').enumerate() {
            let mut names: Vec<std::path::PathBuf> = match std::fs::read_dir(dir) {
                Ok(rd) => rd.flatten().map(|e| e.path()).collect(),
                Err(_) => continue,
            };
            names.sort();
            for path in names {
                let name = path.file_name().map(|n| n.to_string_lossy().to_string()).unwrap_or_default();
                if !name.ends_with(".json") || (di == 0 && !name.contains("-fixed-")) {
                    continue;
                }
                if exclude.as_ref().map(|x| name.contains(x.as_str())).unwrap_or(false) {
                    continue;
                }
                let Ok(text) = std::fs::read_to_string(&path) else { continue };
                let Ok(doc) = serde_json::from_str::<serde_json::Value>(&text) else { continue };
                let Some(hv) = doc.get("history") else { continue };
                if let Ok(h) = serde_json::from_value::<History>(hv.clone()) {
                    if !h.ops.is_empty() && !h.keys.is_empty() {
                        out.push((name, h));
                    }
                }
            }
        }
        out
    })
}

/// One stored history with 1..=6 seeded mutations: drop / duplicate / swap operations, change the
/// key or the value length of an entry, insert an operation of the history's own kind, or cut the
/// tail and end on a long compaction turn.  Everything is drawn from `rng`.
fn corpus_mutant(seed: u64, rng: &mut Rng) -> Option<History> {
    let all = corpus();
    if all.is_empty() {
        return None;
    }
    let (_, base) = &all[rng.usize_below(all.len())];
    let mut h = base.clone();
    h.seed = seed;
    let keys: Vec<Vec<u8>> = h.keys.iter().map(|k| k.0.clone()).collect();
    let nk = keys.len();
    let tree = h.mode == Mode::Tree;
    let has = |h: &History, f: fn(&Op) -> bool| h.ops.iter().any(f);
    let had_reopen = has(&h, |o| matches!(o, Op::Reopen));
    let had_verify = has(&h, |o| matches!(o, Op::Verify));
    let had_scan = has(&h, |o| matches!(o, Op::Scan { .. }));
    let big = h.ops.iter().any(|o| match o {
        Op::Put { vlen, .. } => *vlen >= 300,
        Op::Batch { ents } | Op::Ingest { ents } => ents.iter().any(|e| e.1.map(|v| v >= 300).unwrap_or(false)),
        _ => false,
    });
    let gen_ents = |rng: &mut Rng| -> Vec<Ent> {
        let n = rng.range(1, 5.min(nk as u64)) as usize;
        let mut ks: Vec<usize> = Vec::new();
        while ks.len() < n {
            let k = rng.usize_below(nk);
            if !ks.contains(&k) {
                ks.push(k);
            }
        }
        ks.into_iter().map(|k| if rng.chance(1, 5) { (k, None) } else { (k, Some(gen_vlen(rng, big))) }).collect()
    };
    let n_mut = rng.range(1, 6);
    for _ in 0..n_mut {
        if h.ops.is_empty() {
            break;
        }
        let i = rng.usize_below(h.ops.len());
        match rng.below(9) {
            0 => {
                h.ops.remove(i);
            }
            1 => {
                let op = h.ops[i].clone();
                h.ops.insert(i + 1, op);
            }
            2 => {
                if i + 1 < h.ops.len() {
                    h.ops.swap(i, i + 1);
                }
            }
            3 | 4 => {
                // change one entry of a write near i
                let j = (i..h.ops.len()).chain(0..i).find(|j| h.ops[*j].is_client_write());
                if let Some(j) = j {
                    let new_k = rng.usize_below(nk);
                    let new_v = if rng.chance(1, 5) { None } else { Some(gen_vlen(rng, big)) };
                    let change_key = rng.chance(1, 2);
                    match &mut h.ops[j] {
                        Op::Put { k, vlen } => {
                            if change_key { *k = new_k } else { *vlen = new_v.unwrap_or(0) }
                        }
                        Op::Del { k } => *k = new_k,
                        Op::Batch { ents } | Op::Ingest { ents } => {
                            let e = rng.usize_below(ents.len());
                            if change_key {
                                // an ingested table cannot hold a key twice
                                if !ents.iter().any(|x| x.0 == new_k) {
                                    ents[e].0 = new_k;
                                }
                            } else {
                                ents[e].1 = new_v;
                            }
                        }
                        _ => {}
                    }
                }
            }
            5 | 6 => {
                let op = match rng.below(8) {
                    0 | 1 | 2 => {
                        if tree {
                            Op::Ingest { ents: gen_ents(rng) }
                        } else {
                            match rng.below(3) {
                                0 => Op::Put { k: rng.usize_below(nk), vlen: gen_vlen(rng, big) },
                                1 => Op::Del { k: rng.usize_below(nk) },
                                _ => Op::Batch { ents: gen_ents(rng) },
                            }
                        }
                    }
                    3 => Op::Compact,
                    4 => Op::CompactMany { n: *rng.pick(&[3usize, 8, 20, 48]) },
                    5 => {
                        if tree { Op::Compact } else { Op::Flush }
                    }
                    6 => {
                        if had_scan {
                            Op::Scan { lo: gen_bound(rng, &keys), hi: gen_bound(rng, &keys), prog: gen_prog(rng, &keys, 20) }
                        } else {
                            Op::Get { k: rng.usize_below(nk) }
                        }
                    }
                    _ => {
                        if had_reopen && rng.chance(1, 2) {
                            Op::Reopen
                        } else if had_verify {
                            Op::Verify
                        } else {
                            Op::Get { k: rng.usize_below(nk) }
                        }
                    }
                };
                h.ops.insert(i, op);
            }
            7 => {
                let cut = rng.range((h.ops.len() / 2) as u64, h.ops.len() as u64) as usize;
                h.ops.truncate(cut);
                h.ops.push(Op::CompactMany { n: 48 });
                if had_verify {
                    h.ops.push(Op::Verify);
                }
            }
            _ => {
                // a burst of small writes to one key followed by a long turn: the shape that
                // fills level 0 and then sinks a tower
                let k = rng.usize_below(nk);
                let n = rng.range(2, 6) as usize;
                for _ in 0..n {
                    let op = if tree {
                        Op::Ingest { ents: vec![(k, Some(8))] }
                    } else {
                        Op::Put { k, vlen: 8 }
                    };
                    h.ops.insert(i.min(h.ops.len()), op);
                }
            }
        }
    }
    // Keep the history well formed: cursor slots, re-ingests.
    let mut open = [false; 3];
    let mut out: Vec<Op> = Vec::with_capacity(h.ops.len());
    for op in h.ops.into_iter() {
        match &op {
            Op::Hold { slot, .. } => {
                if open[*slot] {
                    continue;
                }
                open[*slot] = true;
            }
            Op::HoldUse { slot, .. } => {
                if !open[*slot] {
                    continue;
                }
            }
            Op::HoldDrop { slot } => {
                if !open[*slot] {
                    continue;
                }
                open[*slot] = false;
            }
            Op::Reopen => open = [false; 3],
            // positions moved; a re-ingest names an operation index
            Op::Reingest { .. } => continue,
            _ => {}
        }
        out.push(op);
    }
    h.ops = out;
    if h.ops.is_empty() {
        return None;
    }
    Some(h)
}
