//! C04, reject half: tampering as a storage fault.  On a copy of the directory of a finished,
//! fault-free history exactly one tamper is applied to one manifest transaction, and the offline
//! checking pipeline (LsmVerifier, ManifestVerifier) must reject it.
//!
//!  T1  one hex digit of one recorded digest (I, O, D, an added or a removed name) changed, the
//!      line CRC recomputed;
//!  T2  one entry of one output table of a compaction / GC dropped, duplicated (fresh timestamp)
//!      or modified; the table rebuilt with the real builder, renamed to its new digest, the '+'
//!      line updated, I/O/D left alone;
//!  T4  one entry of one output table altered *in place*: the rebuilt table is stored under the
//!      old name, nothing in the manifest changes.

use std::collections::{BTreeMap, BTreeSet};
use std::panic::{catch_unwind, AssertUnwindSafe};
use std::path::{Path, PathBuf};

use serde::{Deserialize, Serialize};
use serde_json::json;
use sst::{Builder, SstBuilder, SstOptions};

use crate::exec::{self, err_class, panic_class, Exec, Oracles, RunCfg};
use crate::hist::{self, History, Op, Profile};
use crate::rng::{self, Rng};
use crate::util::{self, Args, KnownFindings, Part};

#[derive(Clone, Debug, Serialize, Deserialize, PartialEq, Eq)]
pub struct Tamper {
    /// fragment file name under mani/
    pub fragment: String,
    /// index of the edit inside the fragment (>= 1)
    pub edit: usize,
    pub kind: String,
    /// which line of the edit / which entry of the table (seeded, stored for replay)
    pub pick: u64,
}

#[derive(Clone, Debug, Serialize, Deserialize)]
pub struct TReplay {
    pub property: String,
    pub engine: String,
    pub class: String,
    pub detail: String,
    pub verif_seed: u64,
    pub history: History,
    pub tamper: Tamper,
}

fn crc_line(payload: &str) -> String {
    format!("{:08x}{payload}\n", crc32c::crc32c(payload.as_bytes()))
}

/// Split a fragment into edits; each edit is its lines without CRC (payloads).
fn parse_fragment(text: &str) -> Vec<Vec<String>> {
    let mut edits = Vec::new();
    let mut cur = Vec::new();
    for line in text.lines() {
        if line == "--------" {
            edits.push(std::mem::take(&mut cur));
        } else if line.len() > 8 {
            cur.push(line[8..].to_string());
        }
    }
    edits
}

fn render_fragment(edits: &[Vec<String>]) -> String {
    let mut s = String::new();
    for e in edits {
        for l in e {
            s.push_str(&crc_line(l));
        }
        s.push_str("--------\n");
    }
    s
}

fn flip_hex_digit(hex: &str, pick: u64) -> String {
    let mut chars: Vec<char> = hex.chars().collect();
    let i = (pick as usize) % chars.len();
    let d = chars[i].to_digit(16).unwrap_or(0);
    chars[i] = std::char::from_digit((d + 1 + (pick / 64) as u32 % 15) % 16, 16).unwrap();
    chars.into_iter().collect()
}

fn copy_tree(from: &Path, to: &Path) -> std::io::Result<()> {
    std::fs::create_dir_all(to)?;
    for e in std::fs::read_dir(from)? {
        let e = e?;
        let p = e.path();
        if p.is_dir() {
            copy_tree(&p, &to.join(e.file_name()))?;
        } else {
            std::fs::copy(&p, to.join(e.file_name()))?;
        }
    }
    Ok(())
}

fn find_table(root: &Path, hex: &str) -> Option<PathBuf> {
    for d in ["sst", "trash"] {
        let p = root.join(d).join(format!("{hex}.sst"));
        if p.is_file() {
            return Some(p);
        }
    }
    None
}

/// Rebuild the table at `path` with one entry dropped / duplicated / modified.  Returns the new
/// digest and the path of the rebuilt file (in tmp/).
fn rebuild_table(root: &Path, path: &Path, how: &str, pick: u64) -> Result<(String, PathBuf), String> {
    let mut entries = crate::conserve::dump_file(path)?;
    if entries.is_empty() {
        return Err("empty table".into());
    }
    let i = (pick as usize) % entries.len();
    match how {
        "drop" => {
            if entries.len() < 2 {
                return Err("single-entry table".into());
            }
            entries.remove(i);
        }
        "dup" => {
            // a copy of the entry with a fresh, smaller timestamp (sorts right after it)
            let mut e = entries[i].clone();
            if e.1 == 0 {
                return Err("timestamp 0".into());
            }
            e.1 -= 1;
            if entries.get(i + 1).map(|n| n.0 == e.0 && n.1 >= e.1).unwrap_or(false) {
                return Err("no room for a duplicate".into());
            }
            entries.insert(i + 1, e);
        }
        _ => match entries[i].2.as_mut() {
            Some(v) => v.push(b'!'),
            None => entries[i].2 = Some(b"resurrected".to_vec()),
        },
    }
    let out = root.join("tmp").join("tampered.sst");
    let _ = std::fs::remove_file(&out);
    let mut b = SstBuilder::new(SstOptions::default(), &out).map_err(|e| format!("{e}"))?;
    for (k, t, v) in entries.iter() {
        match v {
            Some(v) => b.put(k, *t, v).map_err(|e| format!("{e}"))?,
            None => b.del(k, *t).map_err(|e| format!("{e}"))?,
        }
    }
    let sst = b.seal().map_err(|e| format!("{e}"))?;
    Ok((sst.fast_setsum().into_inner().hexdigest(), out))
}

/// Apply the tamper to the directory copy.  Err = not applicable here.
fn apply(root: &Path, t: &Tamper) -> Result<String, String> {
    let frag = root.join("mani").join(&t.fragment);
    let text = std::fs::read_to_string(&frag).map_err(|e| e.to_string())?;
    let mut edits = parse_fragment(&text);
    let edit = edits.get_mut(t.edit).ok_or("no such edit")?;
    let describe;
    match t.kind.as_str() {
        "T1-I" | "T1-O" | "T1-D" | "T1-add" | "T1-rm" => {
            let prefix = match t.kind.as_str() {
                "T1-I" => "I",
                "T1-O" => "O",
                "T1-D" => "D",
                "T1-add" => "+",
                _ => "-",
            };
            let idxs: Vec<usize> = edit.iter().enumerate().filter(|(_, l)| l.starts_with(prefix)).map(|(i, _)| i).collect();
            if idxs.is_empty() {
                return Err("no such line".into());
            }
            let li = idxs[(t.pick as usize) % idxs.len()];
            let old = edit[li].clone();
            let new = format!("{prefix}{}", flip_hex_digit(&old[1..], t.pick / 7));
            describe = format!("line {old} -> {new}");
            edit[li] = new;
            std::fs::write(&frag, render_fragment(&edits)).map_err(|e| e.to_string())?;
        }
        "T2-drop" | "T2-dup" | "T2-modify" | "T4-drop" | "T4-dup" | "T4-modify" => {
            let has_rm = edit.iter().any(|l| l.starts_with('-'));
            let adds: Vec<usize> = edit.iter().enumerate().filter(|(_, l)| l.starts_with('+')).map(|(i, _)| i).collect();
            if !has_rm || adds.is_empty() {
                return Err("not a compaction transaction".into());
            }
            let li = adds[(t.pick as usize) % adds.len()];
            let hex = edit[li][1..].to_string();
            let path = find_table(root, &hex).ok_or("output table not on disk")?;
            let how = t.kind.split('-').nth(1).unwrap();
            let (new_hex, rebuilt) = rebuild_table(root, &path, how, t.pick / 5)?;
            if new_hex == hex {
                return Err("tamper did not change the table".into());
            }
            if t.kind.starts_with("T2") {
                let newp = path.with_file_name(format!("{new_hex}.sst"));
                std::fs::rename(&rebuilt, &newp).map_err(|e| e.to_string())?;
                std::fs::remove_file(&path).map_err(|e| e.to_string())?;
                edit[li] = format!("+{new_hex}");
                // later transactions that remove this table must name the new digest too,
                // otherwise the tamper touches more than one transaction
                let frag_edits_from = t.edit + 1;
                let mut renamed_later = 0;
                for e2 in edits.iter_mut().skip(frag_edits_from) {
                    for l in e2.iter_mut() {
                        if *l == format!("-{hex}") {
                            *l = format!("-{new_hex}");
                            renamed_later += 1;
                        }
                    }
                }
                describe = format!("output {hex} rebuilt ({how}) as {new_hex}, '+' line updated, {renamed_later} later '-' lines follow the rename");
                std::fs::write(&frag, render_fragment(&edits)).map_err(|e| e.to_string())?;
            } else {
                std::fs::rename(&rebuilt, &path).map_err(|e| e.to_string())?;
                describe = format!("output {hex} altered in place ({how}); its contents now hash to {new_hex}");
            }
        }
        other => return Err(format!("unknown tamper {other}")),
    }
    Ok(describe)
}

/// Run the checking pipeline on `root`.  Ok(true) = rejected, Ok(false) = accepted,
/// Err = inconclusive (back-off, or nothing old enough to process).
fn pipeline_rejects(h: &History, root: &Path) -> Result<(bool, String), String> {
    let opts = exec::build_options(h, root);
    exec::quiet_panics(true);
    let r = catch_unwind(AssertUnwindSafe(|| -> Result<(bool, String), String> {
        // ManifestVerifier on every fragment
        let mv = lsmtk::ManifestVerifier::open().map_err(|e| format!("{e}"))?;
        for (_, path) in crate::books::list_fragments(root) {
            if let Err(e) = mv.verify(&path) {
                return Ok((true, format!("ManifestVerifier: {}", err_class(&format!("{e}")))));
            }
        }
        let mut v = lsmtk::LsmVerifier::open(opts).map_err(|e| format!("{e}"))?;
        match v.verify() {
            Ok(()) => Ok((false, "accepted".into())),
            Err(e) if lsmtk::error_code(&e) == Some(lsmtk::CODE_BACKOFF) => Err("backoff".into()),
            Err(e) => Ok((true, format!("LsmVerifier: {}", err_class(&format!("{e}"))))),
        }
    }));
    exec::quiet_panics(false);
    match r {
        Ok(x) => x,
        Err(_) => {
            let p = exec::take_panic();
            Ok((true, format!("panic:{}", panic_class(&p))))
        }
    }
}

#[derive(Default)]
struct TResult {
    evaluations: u64,
    by_kind: BTreeMap<String, BTreeMap<String, u64>>,
    distinct: BTreeSet<String>,
    viols: Vec<(String, String, Tamper)>,
    skipped: Option<String>,
    sample: Option<serde_json::Value>,
}

fn prepare(h: &History, base: &Path) -> Result<PathBuf, String> {
    let root = base.join("db");
    let cfg = RunCfg {
        root: root.clone(),
        oracles: Oracles::default(),
        record_fs: false,
        fault: None,
        stop_at_first: true,
        ops_after_fault: 0,
    };
    let out = Exec::run(h, &cfg);
    if !out.violations.is_empty() || out.op_results.iter().any(|r| !matches!(r, exec::OpResult::Ok)) {
        return Err("history did not run clean".into());
    }
    Ok(root)
}

fn examine(h: &History, worker: usize, seed: u64, only: Option<&Tamper>) -> TResult {
    let mut res = TResult::default();
    let base = util::scratch_for(worker).join("tamper");
    let _ = std::fs::remove_dir_all(&base);
    let root = match prepare(h, &base) {
        Ok(r) => r,
        Err(e) => {
            res.skipped = Some(e);
            return res;
        }
    };
    // baseline must be accepted (or inconclusive)
    let work = base.join("work");
    let fresh = |work: &Path| {
        let _ = std::fs::remove_dir_all(work);
        copy_tree(&root, work).expect("copy store");
    };
    fresh(&work);
    match pipeline_rejects(h, &work) {
        Ok((false, _)) => {}
        Ok((true, why)) => {
            res.skipped = Some(format!("baseline rejected: {why}"));
            return res;
        }
        Err(e) => {
            res.skipped = Some(format!("baseline inconclusive: {e}"));
            return res;
        }
    }
    // transactions the verifier will process: every non-first edit of every fragment except
    // the last two (highest backup and MANIFEST)
    let mut frags = crate::books::list_fragments(&root);
    frags.pop();
    frags.pop();
    let mut rng = Rng::new(rng::mix(&[seed, h.seed, 4]));
    let mut candidates: Vec<Tamper> = Vec::new();
    for (_, path) in frags.iter() {
        let name = path.file_name().unwrap().to_string_lossy().to_string();
        let text = std::fs::read_to_string(path).unwrap_or_default();
        let edits = parse_fragment(&text);
        for ei in 1..edits.len() {
            let compaction = edits[ei].iter().any(|l| l.starts_with('-')) && edits[ei].iter().any(|l| l.starts_with('+'));
            let mut kinds = vec!["T1-I", "T1-O", "T1-D"];
            if edits[ei].iter().any(|l| l.starts_with('+')) {
                kinds.push("T1-add");
            }
            if edits[ei].iter().any(|l| l.starts_with('-')) {
                kinds.push("T1-rm");
            }
            if compaction {
                kinds.extend(["T2-drop", "T2-dup", "T2-modify", "T4-drop", "T4-dup", "T4-modify"]);
            }
            for k in kinds {
                candidates.push(Tamper {
                    fragment: name.clone(),
                    edit: ei,
                    kind: k.to_string(),
                    pick: rng.next_u64() % 1_000_000,
                });
            }
        }
    }
    res.sample = Some(json!({"history": h.summary(), "fragments_eligible": frags.len(), "tamper_candidates": candidates.len()}));
    // sample when many
    if candidates.len() > 120 {
        for i in (1..candidates.len()).rev() {
            let j = rng.usize_below(i + 1);
            candidates.swap(i, j);
        }
        candidates.truncate(120);
    }
    if let Some(t) = only {
        candidates = vec![t.clone()];
    }
    for t in candidates {
        fresh(&work);
        let what = match apply(&work, &t) {
            Ok(w) => w,
            Err(_) => continue,
        };
        res.evaluations += 1;
        let outcome = match pipeline_rejects(h, &work) {
            Ok((true, why)) => {
                res.distinct.insert(format!("{}|rejected|{}", t.kind, why.chars().take(60).collect::<String>()));
                "rejected"
            }
            Ok((false, _)) => {
                res.distinct.insert(format!("{}|accepted", t.kind));
                res.viols.push((
                    format!("tamper-accepted:{}", t.kind),
                    format!("{} edit {}: {what}; LsmVerifier and ManifestVerifier accept the store", t.fragment, t.edit),
                    t.clone(),
                ));
                "accepted"
            }
            Err(_) => "inconclusive-backoff",
        };
        *res.by_kind.entry(t.kind.clone()).or_default().entry(outcome.to_string()).or_insert(0) += 1;
    }
    let _ = std::fs::remove_dir_all(&base);
    res
}

fn tamper_history(seed: u64, r: u64, p: &Profile) -> History {
    let mut h = hist::generate(crate::seq::history_seed(seed, "C04-tamper", r), p);
    // The verifier must not have consumed the fragments, and more fragments make more
    // transactions eligible: drop verifier passes and scans, end with reopen cycles.
    h.ops.retain(|o| !matches!(o, Op::Verify | Op::Scan { .. } | Op::Get { .. }));
    h.ops.push(Op::Reopen);
    h.ops.push(Op::Reopen);
    h.ops.push(Op::Reopen);
    h
}

pub fn cmd_tamper(args: &Args) -> i32 {
    let prop = "C04".to_string();
    let tier = args.str("tier", "quick");
    let seed = args.u64("seed", 1);
    let runs = args.u64("runs", 60);
    let threads = args.u64("threads", 16) as usize;
    let budget_s = args.get("budget-s").map(|s| s.parse::<f64>().unwrap());
    let phase = args.str("phase", "tamper");
    let profiles: Vec<Profile> = args
        .str("profiles", "kvs,tree")
        .split(',')
        .map(|n| Profile::by_name(n).unwrap_or_else(|| panic!("unknown profile {n}")))
        .collect();
    let out_path = PathBuf::from(args.str("out", "/verif/evidence/parts/tamper.json"));
    let replay_dir = PathBuf::from(args.str("replay-dir", "/verif/replays"));
    let known = KnownFindings::load(Path::new(&args.str("known", "/verif/known_findings.json")));
    let start = std::time::Instant::now();
    println!("VERIF_SEED={seed} property=C04 engine=tampersim tier={tier} histories={runs}");
    let profiles2 = profiles.clone();
    let results = util::par_map(runs, threads, budget_s, move |r, w| {
        let p = &profiles2[(r % profiles2.len() as u64) as usize];
        let h = tamper_history(seed, r, p);
        let res = examine(&h, w, seed, None);
        (h, res)
    });
    let done: Vec<(History, TResult)> = results.into_iter().flatten().collect();
    let mut evaluations = 0;
    let mut by_kind: BTreeMap<String, BTreeMap<String, u64>> = BTreeMap::new();
    let mut distinct = BTreeSet::new();
    let mut skipped: BTreeMap<String, u64> = BTreeMap::new();
    let mut samples = Vec::new();
    let mut class_counts: BTreeMap<String, u64> = BTreeMap::new();
    let mut first: BTreeMap<String, (usize, String, Tamper)> = BTreeMap::new();
    for (i, (_h, res)) in done.iter().enumerate() {
        evaluations += res.evaluations;
        distinct.extend(res.distinct.iter().cloned());
        for (k, m) in res.by_kind.iter() {
            for (o, n) in m.iter() {
                *by_kind.entry(k.clone()).or_default().entry(o.clone()).or_insert(0) += n;
            }
        }
        if let Some(s) = res.skipped.as_ref() {
            *skipped.entry(s.chars().take(80).collect()).or_insert(0) += 1;
        }
        if samples.len() < 3 {
            if let Some(s) = res.sample.clone() {
                samples.push(s);
            }
        }
        for (class, detail, t) in res.viols.iter() {
            *class_counts.entry(class.clone()).or_insert(0) += 1;
            first.entry(class.clone()).or_insert((i, detail.clone(), t.clone()));
        }
    }
    if samples.is_empty() {
        samples.push(json!({"note": "no history produced an eligible transaction"}));
    }
    let mut exit = 0;
    let mut known_out = Vec::new();
    let mut new_classes = 0;
    for (class, (i, detail, t)) in first.iter() {
        if let Some(f) = known.matches(&prop, class) {
            println!("KNOWN-FINDING: property=C04 class={} seen={} {}", f.class, class_counts[class], f.description);
            known_out.push(format!("{class} (seen {} times)", class_counts[class]));
            continue;
        }
        new_classes += 1;
        let replay = TReplay {
            property: prop.clone(),
            engine: "tampersim".into(),
            class: class.clone(),
            detail: detail.clone(),
            verif_seed: seed,
            history: done[*i].0.clone(),
            tamper: t.clone(),
        };
        std::fs::create_dir_all(&replay_dir).ok();
        let text = serde_json::to_string_pretty(&replay).unwrap();
        let path = replay_dir.join(format!("C04-tampersim-{:016x}.json", util::fnv(text.as_bytes(), 0)));
        std::fs::write(&path, text).expect("write replay");
        let exe = std::env::current_exe().unwrap();
        let o = std::process::Command::new(exe).arg("replay").arg(&path).output().expect("spawn replay");
        if o.status.code() != Some(1) {
            eprintln!("HARNESS-ERROR: replay of {} did not reproduce: {}", path.display(), String::from_utf8_lossy(&o.stdout));
            util::cleanup_scratch();
            return 2;
        }
        println!("violation class={class}: {detail}");
        println!("VIOLATION property=C04 replay={}", path.display());
        exit = 1;
    }
    let wall = start.elapsed().as_secs_f64();
    let mut extra = BTreeMap::new();
    extra.insert("histories".to_string(), json!(done.len()));
    extra.insert("histories_skipped".to_string(), json!(skipped));
    extra.insert("tampers_by_kind_and_outcome".to_string(), json!(by_kind));
    extra.insert("violation_classes_seen".to_string(), json!(class_counts));
    let part = Part {
        property_id: prop,
        engine: "tampersim".into(),
        phase,
        tier,
        seed,
        evaluations,
        distinct_nontrivial: distinct.len() as u64,
        rule: "one evaluation = one copy of the directory of a finished fault-free history with exactly one tamper applied to one manifest transaction the verifier will process (T1: one hex digit of I/O/D/an added/a removed digest with the line CRC recomputed; T2: an output table rebuilt with one entry dropped/duplicated/modified and renamed; T4: the same in place), checked by ManifestVerifier on every fragment and LsmVerifier::verify; distinct non-trivial = distinct (tamper kind, outcome, rejecting check)".into(),
        samples,
        wall_s: wall,
        violations: new_classes,
        known_findings: known_out,
        extra,
    };
    part.write(&out_path);
    println!("tampersim C04: {} histories, {evaluations} tampers, {} distinct cases, {wall:.1}s, new violation classes: {new_classes}", done.len(), distinct.len());
    util::cleanup_scratch();
    exit
}

pub fn replay(text: &str, path: &Path) -> i32 {
    let r: TReplay = match serde_json::from_str(text) {
        Ok(r) => r,
        Err(e) => {
            eprintln!("HARNESS-ERROR: cannot parse {}: {e}", path.display());
            return 2;
        }
    };
    let res = examine(&r.history, 0, r.verif_seed, Some(&r.tamper));
    match res.viols.iter().find(|v| v.0 == r.class) {
        Some(v) => {
            println!("reproduced: class={} {}", v.0, v.1);
            println!("VIOLATION property={} replay={}", r.property, path.display());
            1
        }
        None => {
            println!("NOT-REPRODUCED: expected class {} (skipped: {:?})", r.class, res.skipped);
            0
        }
    }
}
