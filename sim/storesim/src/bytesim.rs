//! Byte-level fault injection on stored files (C09) and the log's round trip / torn tail (C12).
//!
//! Files are produced by the real builders from seeded contents and options; damage (bit flips,
//! byte overwrites, truncation, extension, short sequences) is applied to the bytes; the real
//! readers observe the result.  Oracle: every observation is an error, or equals the pristine
//! observation exactly; never a panic, never an allocation out of proportion to the file.

use std::collections::{BTreeMap, BTreeSet};
use std::panic::{catch_unwind, AssertUnwindSafe};
use std::path::{Path, PathBuf};

use arrrg::CommandLine;
use serde::{Deserialize, Serialize};
use serde_json::json;
use sst::{Builder, Cursor, Sst, SstBuilder, SstOptions};

use crate::exec::{self, err_class, panic_class};
use crate::rng::{self, Rng};
use crate::util::{self, Args, KnownFindings, Part};

pub type Entry = (Vec<u8>, u64, Option<Vec<u8>>);

//////////////////////////////////////////// allocation cap ////////////////////////////////////////

pub mod alloc_cap {
    use std::alloc::{GlobalAlloc, Layout, System};
    use std::cell::Cell;

    thread_local! {
        static MAX_REQ: Cell<usize> = const { Cell::new(0) };
    }

    pub struct CapAlloc;

    /// Requests above this are refused outright (the process would otherwise be at the mercy of
    /// a damaged length field).
    const HARD_CAP: usize = 8 << 30;

    unsafe impl GlobalAlloc for CapAlloc {
        unsafe fn alloc(&self, layout: Layout) -> *mut u8 {
            note(layout.size());
            if layout.size() > HARD_CAP {
                return std::ptr::null_mut();
            }
            System.alloc(layout)
        }
        unsafe fn alloc_zeroed(&self, layout: Layout) -> *mut u8 {
            note(layout.size());
            if layout.size() > HARD_CAP {
                return std::ptr::null_mut();
            }
            System.alloc_zeroed(layout)
        }
        unsafe fn dealloc(&self, ptr: *mut u8, layout: Layout) {
            System.dealloc(ptr, layout)
        }
        unsafe fn realloc(&self, ptr: *mut u8, layout: Layout, new_size: usize) -> *mut u8 {
            note(new_size);
            if new_size > HARD_CAP {
                return std::ptr::null_mut();
            }
            System.realloc(ptr, layout, new_size)
        }
    }

    fn note(size: usize) {
        let _ = MAX_REQ.try_with(|m| {
            if size > m.get() {
                m.set(size);
            }
        });
    }

    pub fn reset() {
        MAX_REQ.with(|m| m.set(0));
    }

    pub fn max_request() -> usize {
        MAX_REQ.with(|m| m.get())
    }
}

////////////////////////////////////////////// damage //////////////////////////////////////////////

#[derive(Clone, Debug, Serialize, Deserialize, PartialEq, Eq)]
pub enum Damage {
    Flip { off: usize, bit: u8 },
    Set { off: usize, val: u8 },
    Truncate { len: usize },
    ExtendZeros { n: usize },
    ExtendRandom { n: usize, seed: u64 },
    ExtendOwnTail { n: usize },
    /// append exactly these bytes (text formats: lines of valid but non-ASCII UTF-8)
    ExtendBytes { bytes: Vec<u8> },
}

impl Damage {
    pub fn apply(&self, b: &mut Vec<u8>) {
        match self {
            Damage::Flip { off, bit } => {
                if *off < b.len() {
                    b[*off] ^= 1 << bit;
                }
            }
            Damage::Set { off, val } => {
                if *off < b.len() {
                    b[*off] = *val;
                }
            }
            Damage::Truncate { len } => b.truncate(*len),
            Damage::ExtendZeros { n } => b.extend(std::iter::repeat(0u8).take(*n)),
            Damage::ExtendRandom { n, seed } => {
                let mut r = Rng::new(*seed);
                for _ in 0..*n {
                    b.push(r.next_u64() as u8);
                }
            }
            Damage::ExtendOwnTail { n } => {
                let start = b.len().saturating_sub(*n);
                let tail = b[start..].to_vec();
                b.extend_from_slice(&tail);
            }
            Damage::ExtendBytes { bytes } => b.extend_from_slice(bytes),
        }
    }

    pub fn kind(&self) -> &'static str {
        match self {
            Damage::Flip { .. } => "bit-flip",
            Damage::Set { .. } => "byte-overwrite",
            Damage::Truncate { .. } => "truncate",
            Damage::ExtendZeros { .. } | Damage::ExtendRandom { .. } | Damage::ExtendOwnTail { .. } | Damage::ExtendBytes { .. } => "extend",
        }
    }

    pub fn is_truncation_only(ds: &[Damage]) -> bool {
        ds.iter().all(|d| matches!(d, Damage::Truncate { .. }))
    }
}

///////////////////////////////////////////// recipes //////////////////////////////////////////////

#[derive(Clone, Debug, Serialize, Deserialize, PartialEq, Eq)]
pub struct Recipe {
    pub kind: String, // "sst" | "log" | "manifest" | "store"
    pub seed: u64,
}

#[derive(Clone, Debug, Serialize, Deserialize)]
pub struct BReplay {
    pub property: String,
    pub engine: String,
    pub class: String,
    pub detail: String,
    pub verif_seed: u64,
    pub recipe: Recipe,
    /// file (relative to the generated directory) the damage applies to
    pub file: String,
    pub damage: Vec<Damage>,
}

fn sst_options(rng: &mut Rng) -> SstOptions {
    let mut args: Vec<String> = Vec::new();
    if rng.chance(1, 2) {
        args.push("--block-bytes-restart-interval".into());
        args.push(rng.pick(&[1u64, 2, 16, 512]).to_string());
    }
    if rng.chance(1, 2) {
        args.push("--block-key-value-pairs-restart-interval".into());
        args.push(rng.pick(&[1u64, 2, 16]).to_string());
    }
    if rng.chance(1, 3) {
        args.push("--target-block-size".into());
        args.push(rng.pick(&[4096u64, 16384]).to_string());
    }
    if rng.chance(1, 2) {
        args.push("--bloom-filter-bits".into());
        args.push(rng.pick(&[0u64, 1, 17]).to_string());
    }
    let refs: Vec<&str> = args.iter().map(|s| s.as_str()).collect();
    SstOptions::from_arguments_relaxed("bytesim", &refs).0
}

fn gen_entries(rng: &mut Rng, max_keys: usize, big: bool) -> Vec<Entry> {
    let nkeys = rng.range(1, max_keys as u64) as usize;
    let mut keys: BTreeSet<Vec<u8>> = BTreeSet::new();
    while keys.len() < nkeys {
        let len = rng.range(0, 12) as usize;
        let mut k = Vec::with_capacity(len);
        for _ in 0..len {
            k.push(*rng.pick(b"abkz\x00\xff"));
        }
        keys.insert(k);
    }
    let mut out = Vec::new();
    let mut ts = rng.range(1, 1000);
    for k in keys {
        let versions = rng.range(1, 3);
        let mut tss = Vec::new();
        for _ in 0..versions {
            ts += rng.range(1, 5);
            tss.push(ts);
        }
        tss.reverse();
        for t in tss {
            let v = if rng.chance(1, 5) {
                None
            } else {
                let vlen = if big { rng.range(0, 600) } else { rng.range(0, 40) } as usize;
                Some((0..vlen).map(|i| b'a' + ((i as u64 + t) % 26) as u8).collect())
            };
            out.push((k.clone(), t, v));
        }
    }
    out
}

fn build_sst(path: &Path, opts: SstOptions, entries: &[Entry]) -> Result<(), String> {
    let _ = std::fs::remove_file(path);
    let mut b = SstBuilder::new(opts, path).map_err(|e| format!("{e}"))?;
    for (k, t, v) in entries {
        match v {
            Some(v) => b.put(k, *t, v).map_err(|e| format!("{e}"))?,
            None => b.del(k, *t).map_err(|e| format!("{e}"))?,
        }
    }
    drop(b.seal().map_err(|e| format!("{e}"))?);
    Ok(())
}

/// Minimal protobuf walk of the unchecksummed final block to classify offsets by region.
pub fn sst_regions(bytes: &[u8]) -> Option<[(usize, usize); 5]> {
    if bytes.len() < 8 {
        return None;
    }
    let n = bytes.len();
    let fbo = u64::from_le_bytes(bytes[n - 8..].try_into().ok()?) as usize;
    if fbo > n {
        return None;
    }
    fn varint(b: &[u8], i: &mut usize) -> Option<u64> {
        let mut v = 0u64;
        let mut shift = 0;
        loop {
            let x = *b.get(*i)?;
            *i += 1;
            v |= ((x & 0x7f) as u64) << shift;
            if x & 0x80 == 0 {
                return Some(v);
            }
            shift += 7;
            if shift > 63 {
                return None;
            }
        }
    }
    fn block_md(b: &[u8]) -> Option<(usize, usize)> {
        let mut i = 0;
        let (mut start, mut limit) = (None, None);
        while i < b.len() {
            let tag = varint(b, &mut i)?;
            match (tag >> 3, tag & 7) {
                (13, 0) => start = Some(varint(b, &mut i)? as usize),
                (14, 0) => limit = Some(varint(b, &mut i)? as usize),
                (_, 0) => {
                    varint(b, &mut i)?;
                }
                (_, 5) => i += 4,
                (_, 1) => i += 8,
                (_, 2) => {
                    let l = varint(b, &mut i)? as usize;
                    i += l;
                }
                _ => return None,
            }
        }
        Some((start?, limit?))
    }
    let fb = &bytes[fbo..n];
    let mut i = 0;
    let (mut index, mut filter) = (None, None);
    while i < fb.len() {
        let tag = varint(fb, &mut i)?;
        match (tag >> 3, tag & 7) {
            (16, 2) => {
                let l = varint(fb, &mut i)? as usize;
                index = block_md(fb.get(i..i + l)?);
                i += l;
            }
            (17, 2) => {
                let l = varint(fb, &mut i)? as usize;
                filter = block_md(fb.get(i..i + l)?);
                i += l;
            }
            (_, 0) => {
                varint(fb, &mut i)?;
            }
            (_, 5) => i += 4,
            (_, 1) => i += 8,
            (_, 2) => {
                let l = varint(fb, &mut i)? as usize;
                i += l;
            }
            _ => return None,
        }
    }
    let (is, il) = index?;
    let (fs, fl) = filter?;
    Some([(0, is), (is, il), (fs, fl), (fbo, n - 8), (n - 8, n)])
}

pub const REGION_NAMES: [&str; 5] = ["data-blocks", "index-block", "filter-block", "final-block", "trailing-offset"];

fn region_of(regions: &Option<[(usize, usize); 5]>, off: usize) -> &'static str {
    if let Some(r) = regions {
        for (i, (a, b)) in r.iter().enumerate() {
            if off >= *a && off < *b {
                return REGION_NAMES[i];
            }
        }
    }
    "unclassified"
}

//////////////////////////////////////////// observations //////////////////////////////////////////

fn fmt_entry(k: &[u8], t: u64, v: Option<&[u8]>) -> String {
    format!(
        "{}@{}={}",
        crate::hist::hexbytes::to_hex(k),
        t,
        match v {
            Some(v) => format!("{}:{:08x}", v.len(), crc32c::crc32c(v)),
            None => "T".to_string(),
        }
    )
}

fn observe_sst(path: &Path, probe_keys: &[(Vec<u8>, u64)]) -> Result<String, String> {
    let sst = Sst::<sst::file_manager::FileHandle>::new(SstOptions::default(), path).map_err(|e| format!("{e}"))?;
    let md = sst.metadata().map_err(|e| format!("{e}"))?;
    let mut out = format!(
        "md setsum={} first={} last={} ts={}..{} fast={} ",
        crate::hist::hexbytes::to_hex(&md.setsum),
        crate::hist::hexbytes::to_hex(&md.first_key),
        crate::hist::hexbytes::to_hex(&md.last_key),
        md.smallest_timestamp,
        md.biggest_timestamp,
        sst.fast_setsum().into_inner().hexdigest(),
    );
    let mut c = sst.cursor();
    c.seek_to_first().map_err(|e| format!("{e}"))?;
    out.push_str("fwd[");
    let mut n = 0;
    loop {
        c.next().map_err(|e| format!("{e}"))?;
        match c.key_value() {
            Some(kv) => out.push_str(&fmt_entry(kv.key, kv.timestamp, kv.value)),
            None => break,
        }
        out.push(',');
        n += 1;
        if n > 100_000 {
            return Err("forward walk does not terminate".into());
        }
    }
    out.push_str("] bwd[");
    c.seek_to_last().map_err(|e| format!("{e}"))?;
    n = 0;
    loop {
        c.prev().map_err(|e| format!("{e}"))?;
        match c.key_value() {
            Some(kv) => out.push_str(&fmt_entry(kv.key, kv.timestamp, kv.value)),
            None => break,
        }
        out.push(',');
        n += 1;
        if n > 100_000 {
            return Err("backward walk does not terminate".into());
        }
    }
    out.push_str("] loads[");
    for (k, t) in probe_keys {
        let mut tomb = false;
        let v = sst.load(k, *t, &mut tomb).map_err(|e| format!("{e}"))?;
        out.push_str(&format!("{}:{tomb},", fmt_entry(k, *t, v.as_deref())));
    }
    out.push(']');
    Ok(out)
}

/// Drain a log; returns the entries grouped as read.
fn read_log(path: &Path) -> Result<Vec<Entry>, String> {
    let mut it = sst::LogIterator::new(sst::LogOptions::default(), path).map_err(|e| format!("{e}"))?;
    let mut out = Vec::new();
    loop {
        match it.next() {
            Ok(Some(kv)) => out.push((kv.key.to_vec(), kv.timestamp, kv.value.map(|v| v.to_vec()))),
            Ok(None) => return Ok(out),
            Err(e) => return Err(format!("AFTER{}:{e}", out.len())),
        }
        if out.len() > 1_000_000 {
            return Err("log read does not terminate".into());
        }
    }
}

fn observe_log(path: &Path, scratch: &Path) -> Result<String, String> {
    let entries = read_log(path)?;
    let mut out = String::from("log[");
    for (k, t, v) in entries.iter() {
        out.push_str(&fmt_entry(k, *t, v.as_deref()));
        out.push(',');
    }
    out.push_str("] setsum=");
    let s = sst::log::log_to_setsum(sst::LogOptions::default(), path).map_err(|e| format!("{e}"))?;
    out.push_str(&s.into_inner().hexdigest());
    let tmp = scratch.join("log2sst.sst");
    let _ = std::fs::remove_file(&tmp);
    let b = SstBuilder::new(SstOptions::default(), &tmp).map_err(|e| format!("{e}"))?;
    match sst::log::log_to_builder(sst::LogOptions::default(), path, b).map_err(|e| format!("{e}"))? {
        Some(sst) => out.push_str(&format!(" sst={}", sst.fast_setsum().into_inner().hexdigest())),
        None => out.push_str(" sst=none"),
    }
    let _ = std::fs::remove_file(&tmp);
    Ok(out)
}

fn observe_manifest(dir: &Path, scratch: &Path) -> Result<String, String> {
    let mut out = String::new();
    for (num, path) in crate::books::list_fragments(&dir.join("..")).iter() {
        let _ = (num, path);
    }
    // iterate every fragment file in the directory
    let mut names: Vec<PathBuf> = std::fs::read_dir(dir)
        .map_err(|e| e.to_string())?
        .flatten()
        .map(|e| e.path())
        .filter(|p| p.file_name().map(|n| n.to_string_lossy().starts_with("MANIFEST")).unwrap_or(false))
        .collect();
    names.sort();
    for p in names.iter() {
        out.push_str(&format!("{}[", p.file_name().unwrap().to_string_lossy()));
        let it = mani::ManifestIterator::open(p).map_err(|e| format!("{e}"))?;
        for e in it {
            let e = e.map_err(|e| format!("{e}"))?;
            for r in e.rmed() {
                out.push_str(&format!("-{r};"));
            }
            for a in e.added() {
                out.push_str(&format!("+{a};"));
            }
            for c in (0u8..128).map(|b| b as char) {
                if let Some(v) = e.get_info(c) {
                    out.push_str(&format!("{c}{v};"));
                }
            }
            out.push('|');
        }
        out.push(']');
    }
    // open a copy (open rolls over, i.e. writes)
    let copy = scratch.join("mani-copy");
    let _ = std::fs::remove_dir_all(&copy);
    std::fs::create_dir_all(&copy).map_err(|e| e.to_string())?;
    for p in names.iter() {
        std::fs::copy(p, copy.join(p.file_name().unwrap())).map_err(|e| e.to_string())?;
    }
    let (o, _) = mani::ManifestOptions::from_arguments_relaxed("x", &[]);
    let m = mani::Manifest::open(o, &copy).map_err(|e| format!("{e}"))?;
    out.push_str(" open{");
    for s in m.strs() {
        out.push_str(s);
        out.push(';');
    }
    for c in (0u8..128).map(|b| b as char) {
        if let Some(v) = m.info(c) {
            out.push_str(&format!("{c}{v};"));
        }
    }
    out.push('}');
    drop(m);
    let _ = std::fs::remove_dir_all(&copy);
    Ok(out)
}

/////////////////////////////////////////////// cases //////////////////////////////////////////////

pub struct Generated {
    pub dir: PathBuf,
    /// files eligible for damage, relative to dir
    pub targets: Vec<String>,
    pub probe_keys: Vec<(Vec<u8>, u64)>,
    pub history: Option<crate::hist::History>,
    /// for logs: the batches appended, in order
    pub batches: Vec<Vec<Entry>>,
    pub describe: serde_json::Value,
}

pub fn generate(recipe: &Recipe, dir: &Path) -> Result<Generated, String> {
    let _ = std::fs::remove_dir_all(dir);
    std::fs::create_dir_all(dir).map_err(|e| e.to_string())?;
    let mut rng = Rng::new(rng::mix(&[recipe.seed, rng::str_seed(&recipe.kind)]));
    match recipe.kind.as_str() {
        "sst" => {
            let opts = sst_options(&mut rng);
            let big = rng.chance(1, 3);
            let entries = gen_entries(&mut rng, if big { 30 } else { 12 }, big);
            build_sst(&dir.join("t.sst"), opts, &entries)?;
            let mut probe: Vec<(Vec<u8>, u64)> = Vec::new();
            for (k, t, _) in entries.iter().take(12) {
                probe.push((k.clone(), *t));
                probe.push((k.clone(), u64::MAX));
                probe.push((k.clone(), t.saturating_sub(1)));
            }
            probe.push((b"nokey".to_vec(), u64::MAX));
            Ok(Generated {
                dir: dir.to_path_buf(),
                targets: vec!["t.sst".into()],
                probe_keys: probe,
                history: None,
                batches: vec![],
                describe: json!({"kind": "sst", "entries": entries.len(), "bytes": std::fs::metadata(dir.join("t.sst")).map(|m| m.len()).unwrap_or(0)}),
            })
        }
        "log" | "log-boundary" => {
            let boundary = recipe.kind == "log-boundary";
            let path = dir.join("t.log");
            let mut b = sst::LogBuilder::new(sst::LogOptions::default(), &path).map_err(|e| format!("{e}"))?;
            let mut batches: Vec<Vec<Entry>> = Vec::new();
            let mut gap_after_first: Option<u64> = None;
            let mut ts = 1u64;
            let nb = if boundary { rng.range(2, 5) } else { rng.range(1, 8) };
            for bi in 0..nb {
                let mut wb = sst::log::WriteBatch::default();
                let mut ents: Vec<Entry> = Vec::new();
                let mut push = |wb: &mut sst::log::WriteBatch, ents: &mut Vec<Entry>, k: Vec<u8>, t: u64, v: Option<Vec<u8>>| -> Result<(), String> {
                    match &v {
                        Some(v) => wb.put(&k, t, v).map_err(|e| format!("{e}"))?,
                        None => wb.del(&k, t).map_err(|e| format!("{e}"))?,
                    }
                    ents.push((k, t, v));
                    Ok(())
                };
                if boundary && bi == 0 {
                    // One big batch that ends a seeded small distance before the 1 MiB boundary,
                    // so that the following batches meet the split / padding logic.
                    let want_gap = *rng.pick(&[0u64, 1, 2, 3, 5, 8, 10, 15, 16, 17, 18, 19, 20, 21, 22, 30]);
                    // frame = 1 + packed header (11 bytes for a payload of 16 KiB..2 MiB) + payload
                    let target_payload = ((1u64 << 20) - want_gap - 12) as usize;
                    while wb.approximate_size() + 34_000 < target_payload {
                        ts += 1;
                        push(&mut wb, &mut ents, format!("fill{ts}").into_bytes(), ts, Some(vec![b'f'; 30_000]))?;
                    }
                    // coarse tail, leaving a small remainder
                    if target_payload > wb.approximate_size() + 200 {
                        let room = target_payload - wb.approximate_size() - 100;
                        ts += 1;
                        push(&mut wb, &mut ents, b"t".to_vec(), ts, Some(vec![b't'; room.min(30_000)]))?;
                    }
                    while target_payload > wb.approximate_size() + 200 {
                        let room = target_payload - wb.approximate_size() - 100;
                        ts += 1;
                        push(&mut wb, &mut ents, b"t".to_vec(), ts, Some(vec![b't'; room.min(30_000)]))?;
                    }
                    // exact tail: find the value length whose packed entry fills the remainder
                    let rem = target_payload.saturating_sub(wb.approximate_size());
                    ts += 1;
                    let mut done = false;
                    for l in (0..=rem).rev() {
                        let mut trial = wb.clone();
                        if trial.put(b"x", ts, &vec![b'x'; l]).is_ok() && trial.approximate_size() == target_payload {
                            push(&mut wb, &mut ents, b"x".to_vec(), ts, Some(vec![b'x'; l]))?;
                            done = true;
                            break;
                        }
                    }
                    let _ = done;
                } else if boundary && bi == 1 && rng.chance(1, 2) {
                    // a batch small enough to fit whole into the few bytes left before the
                    // boundary: the place where "padding" and "batch" are told apart by one byte
                    ts += 1;
                    let k = rng.pick(&[b"a".to_vec(), vec![]]).clone();
                    push(&mut wb, &mut ents, k, ts, None)?;
                } else {
                    for _ in 0..rng.range(1, 4) {
                        ts += 1;
                        let k = rng.pick(&[b"a".to_vec(), b"b".to_vec(), b"kk".to_vec(), vec![]]).clone();
                        let v = if rng.chance(1, 4) {
                            None
                        } else {
                            let l = if boundary { rng.range(0, 3000) } else { rng.range(0, 60) } as usize;
                            Some(vec![b'v'; l])
                        };
                        push(&mut wb, &mut ents, k, ts, v)?;
                    }
                }
                b.append(&wb).map_err(|e| format!("{e}"))?;
                if boundary && bi == 0 {
                    let at = b.approximate_size() as u64;
                    gap_after_first = Some(((1u64 << 20) - (at % (1 << 20))) % (1 << 20));
                }
                batches.push(ents);
            }
            let (_, f) = b.seal().map_err(|e| format!("{e}"))?;
            drop(f);
            Ok(Generated {
                dir: dir.to_path_buf(),
                targets: vec!["t.log".into()],
                probe_keys: vec![],
                history: None,
                describe: json!({"kind": recipe.kind, "batches": batches.len(), "bytes": std::fs::metadata(&path).map(|m| m.len()).unwrap_or(0), "bytes_left_before_block_boundary_after_first_batch": gap_after_first}),
                batches,
            })
        }
        "manifest" => {
            let h = crate::manisim::generate(recipe.seed, "plain-strings");
            let mdir = dir.join("m");
            crate::manisim::execute_plain(&h, &mdir)?;
            let mut targets: Vec<String> = std::fs::read_dir(&mdir)
                .map_err(|e| e.to_string())?
                .flatten()
                .map(|e| e.file_name().to_string_lossy().to_string())
                .filter(|n| n.starts_with("MANIFEST"))
                .map(|n| format!("m/{n}"))
                .collect();
            targets.sort();
            Ok(Generated {
                dir: dir.to_path_buf(),
                targets,
                probe_keys: vec![],
                history: None,
                batches: vec![],
                describe: json!({"kind": "manifest", "ops": h.ops.len(), "ratio": h.ratio}),
            })
        }
        "store" => {
            let p = crate::hist::Profile::by_name("kvs-short").unwrap();
            let mut h = crate::hist::generate(recipe.seed, &p);
            // reads only matter at the end; drop scans/verifier passes to keep the history short
            h.ops.retain(|o| !matches!(o, crate::hist::Op::Scan { .. } | crate::hist::Op::Verify));
            let cfg = exec::RunCfg {
                root: dir.join("db"),
                oracles: exec::Oracles::default(),
                record_fs: false,
                fault: None,
                stop_at_first: true,
                ops_after_fault: 0,
            };
            let out = exec::Exec::run(&h, &cfg);
            if !out.violations.is_empty() || out.op_results.iter().any(|r| !matches!(r, exec::OpResult::Ok)) {
                return Err("store recipe history did not run clean".into());
            }
            let mut targets = Vec::new();
            for sub in ["db", "db/sst", "db/mani"] {
                if let Ok(rd) = std::fs::read_dir(dir.join(sub)) {
                    for e in rd.flatten() {
                        let n = e.file_name().to_string_lossy().to_string();
                        if e.path().is_file() && (n.ends_with(".sst") || n.starts_with("log.") || n.starts_with("MANIFEST")) {
                            targets.push(format!("{sub}/{n}"));
                        }
                    }
                }
            }
            targets.sort();
            Ok(Generated {
                dir: dir.to_path_buf(),
                targets,
                probe_keys: vec![],
                describe: json!({"kind": "store", "history": h.summary()}),
                history: Some(h),
                batches: vec![],
            })
        }
        other => Err(format!("unknown recipe kind {other}")),
    }
}

fn observe_store(g: &Generated, root: &Path) -> Result<String, String> {
    let h = g.history.as_ref().ok_or("no history")?;
    let mut ex = exec::Exec::new(h, root, exec::Oracles::default());
    ex.open()?;
    let mut out = String::from("reads[");
    for k in h.keys.iter() {
        let (v, _) = ex.store.as_ref().unwrap().load(&k.0)?;
        out.push_str(&fmt_entry(&k.0, 0, v.as_deref()));
        out.push(',');
    }
    out.push(']');
    // full forward scan
    {
        let store: &exec::Store = ex.store.as_ref().unwrap();
        let lo = std::ops::Bound::Unbounded;
        let hi = std::ops::Bound::Unbounded;
        let mut c = store.scan(&lo, &hi)?;
        let cur: &mut dyn Cursor = c.as_mut();
        cur.seek_to_first().map_err(|e| format!("{e}"))?;
        out.push_str(" scan[");
        let mut n = 0;
        loop {
            cur.next().map_err(|e| format!("{e}"))?;
            match cur.key_value() {
                Some(kv) => out.push_str(&fmt_entry(kv.key, 0, kv.value)),
                None => break,
            }
            out.push(',');
            n += 1;
            if n > 100_000 {
                return Err("scan does not terminate".into());
            }
        }
        out.push(']');
    }
    ex.close();
    let opts = exec::build_options(h, root);
    let mut v = lsmtk::LsmVerifier::open(opts).map_err(|e| format!("{e}"))?;
    match v.verify() {
        Ok(()) => {}
        Err(e) if lsmtk::error_code(&e) == Some(lsmtk::CODE_BACKOFF) => {}
        Err(e) => return Err(format!("{e}")),
    }
    Ok(out)
}

/// Observe `target` (already damaged in a scratch copy).
fn observe(g: &Generated, kind: &str, dir: &Path, target: &str, scratch: &Path) -> Result<String, String> {
    match kind {
        "sst" => observe_sst(&dir.join(target), &g.probe_keys),
        "log" | "log-boundary" => observe_log(&dir.join(target), scratch),
        "manifest" => observe_manifest(&dir.join("m"), scratch),
        "store" => observe_store(g, &dir.join("db")),
        _ => Err("unknown kind".into()),
    }
}

/// Observations a *truncated* append-only file may legitimately yield: those of a
/// record-granular prefix (it is indistinguishable from a shorter valid file).
fn prefix_observations(g: &Generated, kind: &str, scratch: &Path) -> Vec<String> {
    let mut out = Vec::new();
    if kind == "manifest" {
        // every cut at an edit boundary of the target fragment
        if let Some(target) = g.targets.iter().find(|t| Some(t.as_str()) == CURRENT_TARGET.with(|c| c.borrow().clone()).as_deref()) {
            let gen = g.dir.join(target);
            if let Ok(bytes) = std::fs::read(&gen) {
                let mut cuts = vec![0usize];
                let sep = b"--------\n";
                let mut i = 0;
                while i + sep.len() <= bytes.len() {
                    if &bytes[i..i + sep.len()] == sep && (i == 0 || bytes[i - 1] == b'\n') {
                        cuts.push(i + sep.len());
                    }
                    i += 1;
                }
                let work = scratch.join("prefix-mani");
                for c in cuts {
                    let _ = std::fs::remove_dir_all(&work);
                    if copy_tree(&g.dir, &work).is_ok() && std::fs::write(work.join(target), &bytes[..c]).is_ok() {
                        if let Ok(o) = observe_manifest(&work.join("m"), scratch) {
                            out.push(o);
                        }
                    }
                }
                let _ = std::fs::remove_dir_all(&work);
            }
        }
    }
    if kind == "log" || kind == "log-boundary" {
        for n in 0..=g.batches.len() {
            let p = scratch.join("prefix.log");
            let _ = std::fs::remove_file(&p);
            if let Ok(mut b) = sst::LogBuilder::new(sst::LogOptions::default(), &p) {
                let mut ok = true;
                for batch in g.batches.iter().take(n) {
                    let mut wb = sst::log::WriteBatch::default();
                    for (k, t, v) in batch {
                        let r = match v {
                            Some(v) => wb.put(k, *t, v),
                            None => wb.del(k, *t),
                        };
                        ok &= r.is_ok();
                    }
                    ok &= b.append(&wb).is_ok();
                }
                if ok && b.seal().is_ok() {
                    if let Ok(o) = observe_log(&p, scratch) {
                        out.push(o);
                    }
                }
            }
            let _ = std::fs::remove_file(&p);
        }
    }
    out
}

thread_local! {
    static CURRENT_TARGET: std::cell::RefCell<Option<String>> = const { std::cell::RefCell::new(None) };
}

/// Length in bytes of the last frame of the generated log (file length minus the length of the
/// same log without its last batch).
fn last_log_frame_len(g: &Generated, scratch: &Path) -> Option<usize> {
    let full = std::fs::metadata(g.dir.join("t.log")).ok()?.len() as usize;
    let p = scratch.join("minus-one.log");
    let _ = std::fs::remove_file(&p);
    let mut b = sst::LogBuilder::new(sst::LogOptions::default(), &p).ok()?;
    for batch in g.batches.iter().take(g.batches.len() - 1) {
        let mut wb = sst::log::WriteBatch::default();
        for (k, t, v) in batch {
            match v {
                Some(v) => wb.put(k, *t, v).ok()?,
                None => wb.del(k, *t).ok()?,
            }
        }
        b.append(&wb).ok()?;
    }
    b.seal().ok()?;
    let shorter = std::fs::metadata(&p).ok()?.len() as usize;
    let _ = std::fs::remove_file(&p);
    full.checked_sub(shorter)
}

#[derive(Default)]
pub struct CaseStats {
    pub evaluations: u64,
    pub by_kind: BTreeMap<String, u64>,
    pub by_region: BTreeMap<String, u64>,
    pub outcomes: BTreeMap<String, u64>,
    pub distinct: BTreeSet<String>,
    pub viols: Vec<(String, String, String, Vec<Damage>)>, // class, detail, file, damage
    pub max_alloc: usize,
}

#[allow(clippy::too_many_arguments)]
fn run_case(
    g: &Generated,
    kind: &str,
    target: &str,
    pristine_bytes: &[u8],
    pristine_obs: &str,
    prefix_obs: &[String],
    regions: &Option<[(usize, usize); 5]>,
    damage: &[Damage],
    work: &Path,
    scratch: &Path,
    stats: &mut CaseStats,
) {
    let mut bytes = pristine_bytes.to_vec();
    for d in damage {
        d.apply(&mut bytes);
    }
    if bytes == pristine_bytes {
        return;
    }
    std::fs::write(work.join(target), &bytes).expect("write damaged file");
    stats.evaluations += 1;
    let dk = if damage.len() > 1 { "sequence" } else { damage[0].kind() };
    *stats.by_kind.entry(dk.to_string()).or_insert(0) += 1;
    let region_for = |d: &Damage| match d {
        Damage::Flip { off, .. } | Damage::Set { off, .. } => region_of(regions, *off),
        Damage::Truncate { len } => region_of(regions, len.saturating_sub(0).min(pristine_bytes.len().saturating_sub(1))),
        _ => "appended",
    };
    let mut region = region_for(&damage[0]);
    let mut damage: Vec<Damage> = damage.to_vec();
    if kind == "sst" {
        *stats.by_region.entry(format!("{dk}@{region}")).or_insert(0) += 1;
    }
    alloc_cap::reset();
    exec::quiet_panics(true);
    let r = catch_unwind(AssertUnwindSafe(|| observe(g, kind, work, target, scratch)));
    exec::quiet_panics(false);
    let max_alloc = alloc_cap::max_request();
    stats.max_alloc = stats.max_alloc.max(max_alloc);
    // "Unbounded" is judged against the formats' own cap: the readers refuse a record that claims
    // more than sst::TABLE_FULL_SIZE (1 GiB - 64 MiB) before allocating for it.
    let alloc_limit = (1usize << 30).max(16 * pristine_bytes.len());
    let tag;
    let mut viol: Option<(String, String)> = None;
    match r {
        Err(_) => {
            let p = exec::take_panic();
            tag = "panic";
            viol = Some((format!("panic:{}", panic_class(&p)), p));
        }
        Ok(Err(_)) => tag = "error",
        Ok(Ok(obs)) => {
            if obs == pristine_obs {
                tag = "identical";
            } else if (Damage::is_truncation_only(&damage) || bytes.len() < pristine_bytes.len())
                && prefix_obs.iter().any(|p| *p == obs)
            {
                // A shorter file that reads exactly as a record-granular prefix is
                // indistinguishable from a shorter valid file (append-only formats).
                tag = "record-granular-prefix";
            } else {
                tag = "different";
                // A sequence: drop every step that is not needed for exactly this observation
                // (no-ops, harmless steps); the case belongs to the steps that remain.
                if damage.len() > 1 {
                    let mut kept: Vec<Damage> = damage.clone();
                    let mut i = 0;
                    while kept.len() > 1 && i < kept.len() {
                        let mut trial = kept.clone();
                        trial.remove(i);
                        let mut b = pristine_bytes.to_vec();
                        for d in trial.iter() {
                            d.apply(&mut b);
                        }
                        let mut same = false;
                        if b != pristine_bytes {
                            std::fs::write(work.join(target), &b).expect("write damaged file");
                            exec::quiet_panics(true);
                            let r1 = catch_unwind(AssertUnwindSafe(|| observe(g, kind, work, target, scratch)));
                            exec::quiet_panics(false);
                            if let Ok(Ok(o1)) = r1 {
                                same = o1 == obs;
                            }
                        }
                        if same {
                            kept = trial;
                            bytes = b;
                            i = 0;
                        } else {
                            i += 1;
                        }
                    }
                    if kept.len() < damage.len() {
                        let mut regs: Vec<&'static str> = kept.iter().map(&region_for).collect();
                        regs.sort();
                        regs.dedup();
                        region = if regs.len() == 1 { regs[0] } else { "several-regions" };
                        damage = kept;
                    }
                }
                // where do they first differ?
                let pos = obs.bytes().zip(pristine_obs.bytes()).position(|(a, b)| a != b).unwrap_or(obs.len().min(pristine_obs.len()));
                let ctx_a: String = obs.chars().skip(pos.saturating_sub(30)).take(90).collect();
                let ctx_b: String = pristine_obs.chars().skip(pos.saturating_sub(30)).take(90).collect();
                // for a table: does only the metadata taken from the final block differ, or also
                // what walks and point reads return?
                let sections = |o: &str| -> (String, String) {
                    match o.find(" fwd[") {
                        Some(i) => (o[..i].to_string(), o[i..].to_string()),
                        None => (o.to_string(), String::new()),
                    }
                };
                let what = if kind == "sst" {
                    let (md_a, data_a) = sections(&obs);
                    let (md_b, data_b) = sections(pristine_obs);
                    let part = if data_a == data_b { "metadata-only" } else if md_a == md_b { "walks-or-reads" } else { "metadata-and-walks-or-reads" };
                    format!("silent-difference@{region}:{part}")
                } else {
                    "silent-difference".to_string()
                };
                viol = Some((what, format!("damaged observation `…{ctx_a}…` vs pristine `…{ctx_b}…`")));
            }
        }
    }
    if viol.is_none() && max_alloc > alloc_limit {
        viol = Some((
            "allocation-out-of-proportion".to_string(),
            format!("a single allocation of {max_alloc} bytes while reading a {}-byte file", bytes.len()),
        ));
    }
    *stats.outcomes.entry(tag.to_string()).or_insert(0) += 1;
    stats.distinct.insert(format!("{kind}|{dk}|{region}|{tag}"));
    if let Some((mut class, detail)) = viol {
        if class.starts_with("silent-difference") {
            // name the file type and the damage kind: they identify the weakness
            let ftype = if target.ends_with(".sst") {
                "sst"
            } else if target.contains("log.") || target.ends_with(".log") {
                "log"
            } else {
                "manifest"
            };
            let dkind = if damage.iter().any(|d| matches!(d, Damage::ExtendOwnTail { .. })) {
                "own-tail-replayed"
            } else if pristine_bytes.starts_with(&bytes) {
                "truncated"
            } else {
                "altered"
            };
            class = format!("{class}:{ftype}-{dkind}");
            if kind == "store" && ftype == "sst" {
                class = format!("{class}@{region}");
            }
        }
        stats.viols.push((format!("{kind}:{class}"), format!("{target} {damage:?}: {detail}"), target.to_string(), damage.to_vec()));
    }
    // restore for the next case
    std::fs::write(work.join(target), pristine_bytes).expect("restore file");
}

fn copy_tree(from: &Path, to: &Path) -> std::io::Result<()> {
    std::fs::create_dir_all(to)?;
    for e in std::fs::read_dir(from)? {
        let e = e?;
        let p = e.path();
        if p.is_dir() {
            copy_tree(&p, &to.join(e.file_name()))?;
        } else {
            std::fs::copy(&p, to.join(e.file_name()))?;
        }
    }
    Ok(())
}

/// All damage for one generated directory.  `exhaustive_bits`: all 8 bits per byte.
fn examine(
    recipe: &Recipe,
    worker: usize,
    thorough: bool,
    only: Option<(&str, &[Damage])>,
    deadline: Option<std::time::Instant>,
) -> Result<CaseStats, String> {
    let base = util::scratch_for(worker).join("bytes");
    let gen_dir = base.join("gen");
    let work = base.join("work");
    let scratch = base.join("scratch");
    let _ = std::fs::remove_dir_all(&base);
    std::fs::create_dir_all(&scratch).map_err(|e| e.to_string())?;
    let g = generate(recipe, &gen_dir)?;
    let kind = recipe.kind.as_str();
    let mut stats = CaseStats::default();
    let mut rng = Rng::new(rng::mix(&[recipe.seed, 0xdead]));
    copy_tree(&gen_dir, &work).map_err(|e| e.to_string())?;
    // pristine observation (store: a fresh copy each time because open mutates the directory)
    let fresh = |work: &Path| -> Result<(), String> {
        if kind == "store" {
            let _ = std::fs::remove_dir_all(work);
            copy_tree(&gen_dir, work).map_err(|e| e.to_string())?;
        }
        Ok(())
    };
    for target in g.targets.iter() {
        if let Some((t, _)) = only {
            if t != target {
                continue;
            }
        }
        fresh(&work)?;
        let pristine_bytes = std::fs::read(gen_dir.join(target)).map_err(|e| e.to_string())?;
        let pristine_obs = observe(&g, kind, &work, target, &scratch).map_err(|e| format!("pristine observation failed: {e}"))?;
        CURRENT_TARGET.with(|c| *c.borrow_mut() = Some(target.clone()));
        let prefix_obs = prefix_observations(&g, kind, &scratch);
        let regions = if target.ends_with(".sst") { sst_regions(&pristine_bytes) } else { None };
        let n = pristine_bytes.len();
        let mut cases: Vec<Vec<Damage>> = Vec::new();
        if let Some((_, d)) = only {
            cases.push(d.to_vec());
        } else {
            let small = n <= 8192 && kind != "store";
            let offsets: Vec<usize> = if small {
                (0..n).collect()
            } else {
                // boundary-biased sample: file edges, 1 MiB block edges, region edges, random
                let mut s: BTreeSet<usize> = BTreeSet::new();
                for e in [0usize, n.saturating_sub(1)] {
                    for d in 0..64 {
                        s.insert((e + d).min(n.saturating_sub(1)));
                        s.insert(e.saturating_sub(d));
                    }
                }
                let mut edge = 1usize << 20;
                while edge < n {
                    for d in 0..48 {
                        s.insert((edge + d).min(n - 1));
                        s.insert(edge.saturating_sub(d));
                    }
                    edge += 1 << 20;
                }
                if let Some(r) = regions.as_ref() {
                    for (a, b) in r.iter() {
                        for d in 0..8 {
                            s.insert((a + d).min(n.saturating_sub(1)));
                            s.insert(b.saturating_sub(d + 1));
                        }
                    }
                }
                let extra = if kind == "store" { 24 } else { 400 };
                for _ in 0..extra {
                    if n > 0 {
                        s.insert(rng.usize_below(n));
                    }
                }
                s.into_iter().filter(|o| *o < n).collect()
            };
            for off in offsets.iter() {
                if thorough && small {
                    for bit in 0..8u8 {
                        cases.push(vec![Damage::Flip { off: *off, bit }]);
                    }
                } else {
                    cases.push(vec![Damage::Flip { off: *off, bit: rng.below(8) as u8 }]);
                }
                cases.push(vec![Damage::Set { off: *off, val: rng.next_u64() as u8 }]);
                // boundary values: zeroed bytes (padding / empty length) and all-ones
                cases.push(vec![Damage::Set { off: *off, val: 0x00 }]);
                if thorough {
                    cases.push(vec![Damage::Set { off: *off, val: 0xff }]);
                }
            }
            // truncations: every length when small, near edges otherwise
            let lens: Vec<usize> = if small { (0..n).collect() } else { offsets.clone() };
            let append_only = target.contains("log.") || target.contains("MANIFEST");
            if !(kind == "store" && append_only) {
                // (inside a store directory a truncated log or manifest is, by the same
                // relaxation, a shorter valid file; truncation of those formats is decided on
                // the files themselves)
                for len in lens {
                    cases.push(vec![Damage::Truncate { len }]);
                }
            }
            if (kind == "log" || kind == "log-boundary") && g.batches.len() >= 2 {
                // replay of the last whole record: exactly the bytes of the last frame
                if let Some(last) = last_log_frame_len(&g, &scratch) {
                    cases.push(vec![Damage::ExtendOwnTail { n: last }]);
                }
            }
            if kind == "manifest" {
                if let Some(pos) = pristine_bytes[..n.saturating_sub(9).max(0)].windows(9).rposition(|w| w == b"--------\n") {
                    cases.push(vec![Damage::ExtendOwnTail { n: n - (pos + 9) }]);
                }
            }
            if kind == "manifest" {
                // A text format read line by line and sliced at fixed byte offsets: adjacent
                // overwrites that form one valid multi-byte UTF-8 character at every offset, and
                // appended lines of valid non-ASCII text with the character at various columns.
                for off in 0..n.saturating_sub(2) {
                    cases.push(vec![Damage::Set { off, val: 0xc3 }, Damage::Set { off: off + 1, val: 0xa9 }]);
                    cases.push(vec![Damage::Set { off, val: 0xe2 }, Damage::Set { off: off + 1, val: 0x82 }, Damage::Set { off: off + 2, val: 0xac }]);
                }
                for col in 0..12usize {
                    let mut line = vec![b'0'; col];
                    line.extend_from_slice("\u{e9}+xyz\n".as_bytes());
                    cases.push(vec![Damage::ExtendBytes { bytes: line }]);
                    let mut line = vec![b'a'; col];
                    line.extend_from_slice("\u{20ac}\u{20ac}\u{20ac}\u{20ac}\n".as_bytes());
                    cases.push(vec![Damage::ExtendBytes { bytes: line }]);
                }
            }
            if kind != "store" {
                for k in [1usize, 8, 64] {
                    cases.push(vec![Damage::ExtendZeros { n: k }]);
                    cases.push(vec![Damage::ExtendRandom { n: k, seed: rng.next_u64() }]);
                    cases.push(vec![Damage::ExtendOwnTail { n: k.min(n) }]);
                }
                // short sequences
                for _ in 0..(if thorough { 200 } else { 40 }) {
                    if n == 0 {
                        break;
                    }
                    let mut seq = Vec::new();
                    for _ in 0..rng.range(2, 3) {
                        seq.push(match rng.below(3) {
                            0 => Damage::Flip { off: rng.usize_below(n), bit: rng.below(8) as u8 },
                            1 => Damage::Set { off: rng.usize_below(n), val: rng.next_u64() as u8 },
                            _ => Damage::Truncate { len: rng.usize_below(n) },
                        });
                    }
                    cases.push(seq);
                }
            }
        }
        for c in cases.iter() {
            if deadline.map(|d| std::time::Instant::now() > d).unwrap_or(false) {
                // the phase's time budget ran out inside this file's enumeration
                *stats.outcomes.entry("probe:enumeration-of-a-file-cut-short-by-the-time-budget".to_string()).or_insert(0) += 1;
                break;
            }
            util::heartbeat();
            fresh(&work)?;
            run_case(&g, kind, target, &pristine_bytes, &pristine_obs, &prefix_obs, &regions, c, &work, &scratch, &mut stats);
        }
    }
    let _ = std::fs::remove_dir_all(&base);
    Ok(stats)
}

/// C12 round trip and batch-granular torn tail, on a log with boundary-biased batch sizes.
fn log_roundtrip(recipe: &Recipe, worker: usize, stats: &mut CaseStats) -> Result<serde_json::Value, String> {
    let base = util::scratch_for(worker).join("logrt");
    let _ = std::fs::remove_dir_all(&base);
    let g = generate(recipe, &base.join("gen"))?;
    let path = base.join("gen").join("t.log");
    let bytes = std::fs::read(&path).map_err(|e| e.to_string())?;
    let want: Vec<Entry> = g.batches.iter().flatten().cloned().collect();
    stats.evaluations += 1;
    if let Some(gap) = g.describe.get("bytes_left_before_block_boundary_after_first_batch").and_then(|v| v.as_u64()) {
        *stats.outcomes.entry(format!("probe:batch-started-{gap}-bytes-before-block-boundary")).or_insert(0) += 1;
    }
    exec::quiet_panics(true);
    let got = catch_unwind(AssertUnwindSafe(|| read_log(&path)));
    exec::quiet_panics(false);
    match got {
        Err(_) => {
            let p = exec::take_panic();
            stats.viols.push((format!("roundtrip:panic:{}", panic_class(&p)), p, "t.log".into(), vec![]));
        }
        Ok(Err(e)) => stats.viols.push((format!("roundtrip:read-error:{}", err_class(&e)), format!("reading an undamaged log failed: {e}"), "t.log".into(), vec![])),
        Ok(Ok(got)) => {
            if got != want {
                stats.viols.push(("roundtrip:entries-differ".into(), format!("read {} entries, appended {}", got.len(), want.len()), "t.log".into(), vec![]));
            }
        }
    }
    // frame edges: offsets at which a batch ends, found by reading prefixes
    let mut cuts: BTreeSet<usize> = BTreeSet::new();
    let n = bytes.len();
    for e in [0usize, n] {
        for d in 0..70 {
            cuts.insert(e.saturating_sub(d));
            cuts.insert((e + d).min(n));
        }
    }
    let mut edge = 1usize << 20;
    while edge <= n {
        for d in 0..70 {
            cuts.insert(edge.saturating_sub(d));
            cuts.insert((edge + d).min(n));
        }
        edge += 1 << 20;
    }
    let mut rng = Rng::new(rng::mix(&[recipe.seed, 12]));
    for _ in 0..300 {
        cuts.insert(rng.usize_below(n + 1));
    }
    // batch boundaries in entry counts
    let mut allowed: Vec<usize> = vec![0];
    let mut acc = 0;
    for b in g.batches.iter() {
        acc += b.len();
        allowed.push(acc);
    }
    let cut_path = base.join("cut.log");
    let mut gap_probe: BTreeMap<String, u64> = BTreeMap::new();
    for len in cuts {
        std::fs::write(&cut_path, &bytes[..len]).map_err(|e| e.to_string())?;
        stats.evaluations += 1;
        *stats.by_kind.entry("truncate".into()).or_insert(0) += 1;
        exec::quiet_panics(true);
        let r = catch_unwind(AssertUnwindSafe(|| read_log(&cut_path)));
        let r2 = catch_unwind(AssertUnwindSafe(|| sst::log::log_to_setsum(sst::LogOptions::default(), &cut_path).map(|_| ()).map_err(|e| format!("{e}"))));
        exec::quiet_panics(false);
        let (entries, tag): (Vec<Entry>, &str) = match r {
            Err(_) => {
                let p = exec::take_panic();
                stats.viols.push((format!("torn-tail:panic:{}", panic_class(&p)), format!("cut at {len}/{n}: {p}"), "t.log".into(), vec![Damage::Truncate { len }]));
                continue;
            }
            Ok(Ok(e)) => (e, "ends"),
            Ok(Err(e)) => {
                // "AFTER<n>:<err>": n entries were returned before the error
                let k: usize = e.strip_prefix("AFTER").and_then(|s| s.split(':').next()).and_then(|s| s.parse().ok()).unwrap_or(0);
                (want.iter().take(k).cloned().collect::<Vec<_>>(), "error")
            }
        };
        *stats.outcomes.entry(format!("torn-tail:{tag}")).or_insert(0) += 1;
        stats.distinct.insert(format!("torn-tail|{}|{tag}|{}", if len % (1 << 20) < 64 || (1 << 20) - (len % (1 << 20)) < 64 { "near-block-edge" } else { "elsewhere" }, entries.len().min(3)));
        if tag == "ends" {
            if !allowed.contains(&entries.len()) || entries[..] != want[..entries.len()] {
                stats.viols.push((
                    "torn-tail:partial-or-invented-batch".into(),
                    format!("cut at {len}/{n}: read {} entries, batch boundaries are at {:?}", entries.len(), allowed),
                    "t.log".into(),
                    vec![Damage::Truncate { len }],
                ));
            }
        } else if !allowed.contains(&entries.len()) {
            stats.viols.push((
                "torn-tail:partial-batch-before-error".into(),
                format!("cut at {len}/{n}: {} entries returned before the error, batch boundaries are at {:?}", entries.len(), allowed),
                "t.log".into(),
                vec![Damage::Truncate { len }],
            ));
        }
        if r2.is_err() {
            let p = exec::take_panic();
            stats.viols.push((format!("torn-tail:log_to_setsum-panicked:{}", panic_class(&p)), format!("cut at {len}/{n}: {p}"), "t.log".into(), vec![Damage::Truncate { len }]));
        }
    }
    // probe: how close to a block boundary did a batch end?
    {
        let mut off = 0usize;
        let _ = &mut off;
        let gap = (1usize << 20).saturating_sub(n % (1 << 20));
        *gap_probe.entry(format!("file_end_gap_to_boundary_le_{}", if gap <= 20 { 20 } else if gap <= 64 { 64 } else { 1 << 20 })).or_insert(0) += 1;
    }
    let _ = std::fs::remove_dir_all(&base);
    Ok(json!({"recipe": recipe, "bytes": n, "batches": g.batches.len(), "crosses_block_boundary": n > (1 << 20)}))
}

pub fn cmd_bytes(args: &Args) -> i32 {
    let prop = args.str("prop", "C09");
    let tier = args.str("tier", "quick");
    let seed = args.u64("seed", 1);
    let runs = args.u64("runs", 64);
    let threads = args.u64("threads", 16) as usize;
    let budget_s = args.get("budget-s").map(|s| s.parse::<f64>().unwrap());
    let kinds: Vec<String> = args.str("kinds", "sst,log,manifest,store").split(',').map(|s| s.to_string()).collect();
    let mode = args.str("mode", "damage"); // damage | log-roundtrip
    let phase = args.str("phase", &format!("bytes-{mode}"));
    let out_path = PathBuf::from(args.str("out", "/verif/evidence/parts/bytes.json"));
    let replay_dir = PathBuf::from(args.str("replay-dir", "/verif/replays"));
    let known = KnownFindings::load(Path::new(&args.str("known", "/verif/known_findings.json")));
    let thorough = tier == "thorough";
    let start = std::time::Instant::now();
    println!("VERIF_SEED={seed} property={prop} engine=bytesim tier={tier} files={runs} kinds={kinds:?} mode={mode}");
    let kinds2 = kinds.clone();
    let mode2 = mode.clone();
    let prop2 = prop.clone();
    let deadline = budget_s.map(|b| start + std::time::Duration::from_secs_f64(b * 1.1));
    let results = util::par_map(runs, threads, budget_s, move |r, w| {
        let kind = kinds2[(r % kinds2.len() as u64) as usize].clone();
        let recipe = Recipe { kind, seed: rng::mix(&[seed, rng::str_seed(&prop2), r]) };
        if mode2 == "log-roundtrip" {
            let mut stats = CaseStats::default();
            let s = log_roundtrip(&recipe, w, &mut stats);
            (recipe, s.map(|v| (stats, Some(v))))
        } else {
            let s = examine(&recipe, w, thorough, None, deadline);
            (recipe, s.map(|st| (st, None)))
        }
    });
    let mut evaluations = 0u64;
    let mut by_kind: BTreeMap<String, u64> = BTreeMap::new();
    let mut by_region: BTreeMap<String, u64> = BTreeMap::new();
    let mut outcomes: BTreeMap<String, u64> = BTreeMap::new();
    let mut distinct = BTreeSet::new();
    let mut samples = Vec::new();
    let mut class_counts: BTreeMap<String, u64> = BTreeMap::new();
    let mut first: BTreeMap<String, (Recipe, String, String, Vec<Damage>)> = BTreeMap::new();
    let mut gen_errors = 0;
    let mut files = 0;
    let mut max_alloc = 0usize;
    for (recipe, res) in results.into_iter().flatten() {
        match res {
            Err(e) => {
                gen_errors += 1;
                if gen_errors <= 3 {
                    eprintln!("note: recipe {recipe:?} skipped: {e}");
                }
            }
            Ok((st, sample)) => {
                files += 1;
                evaluations += st.evaluations;
                max_alloc = max_alloc.max(st.max_alloc);
                for (k, v) in st.by_kind {
                    *by_kind.entry(k).or_insert(0) += v;
                }
                for (k, v) in st.by_region {
                    *by_region.entry(k).or_insert(0) += v;
                }
                for (k, v) in st.outcomes {
                    *outcomes.entry(k).or_insert(0) += v;
                }
                distinct.extend(st.distinct);
                if samples.len() < 4 {
                    samples.push(sample.unwrap_or_else(|| json!({"recipe": recipe})));
                }
                for (class, detail, file, damage) in st.viols {
                    *class_counts.entry(class.clone()).or_insert(0) += 1;
                    first.entry(class).or_insert((recipe.clone(), detail, file, damage));
                }
            }
        }
    }
    let mut exit = 0;
    let mut known_out = Vec::new();
    let mut new_classes = 0;
    let mut reported = 0;
    for (class, (recipe, detail, file, damage)) in first.iter() {
        if let Some(f) = known.matches(&prop, class) {
            println!("KNOWN-FINDING: property={prop} class={} seen={} {}", f.class, class_counts[class], f.description);
            known_out.push(format!("{class} (seen {} times)", class_counts[class]));
            continue;
        }
        new_classes += 1;
        if reported >= 4 {
            continue;
        }
        reported += 1;
        let replay = BReplay {
            property: prop.clone(),
            engine: if mode == "log-roundtrip" { "bytesim-log".into() } else { "bytesim".into() },
            class: class.clone(),
            detail: detail.clone(),
            verif_seed: seed,
            recipe: recipe.clone(),
            file: file.clone(),
            damage: damage.clone(),
        };
        std::fs::create_dir_all(&replay_dir).ok();
        let text = serde_json::to_string_pretty(&replay).unwrap();
        let path = replay_dir.join(format!("{prop}-bytesim-{:016x}.json", util::fnv(text.as_bytes(), 0)));
        std::fs::write(&path, text).expect("write replay");
        let exe = std::env::current_exe().unwrap();
        let o = std::process::Command::new(exe).arg("replay").arg(&path).output().expect("spawn replay");
        if o.status.code() != Some(1) {
            eprintln!("HARNESS-ERROR: replay of {} did not reproduce: {}", path.display(), String::from_utf8_lossy(&o.stdout));
            util::cleanup_scratch();
            return 2;
        }
        println!("violation class={class}: {}", detail.chars().take(500).collect::<String>());
        println!("VIOLATION property={prop} replay={}", path.display());
        exit = 1;
    }
    let wall = start.elapsed().as_secs_f64();
    let mut extra = BTreeMap::new();
    extra.insert("files_generated".to_string(), json!(files));
    extra.insert("recipes_skipped".to_string(), json!(gen_errors));
    extra.insert("damage_by_kind".to_string(), json!(by_kind));
    extra.insert("sst_damage_by_kind_and_region".to_string(), json!(by_region));
    extra.insert("outcomes".to_string(), json!(outcomes));
    extra.insert("largest_single_allocation_bytes".to_string(), json!(max_alloc));
    extra.insert("violation_classes_seen".to_string(), json!(class_counts));
    extra.insert("evaluations_per_hour".to_string(), json!((evaluations as f64 / wall.max(0.001) * 3600.0) as u64));
    let part = Part {
        property_id: prop.clone(),
        engine: "bytesim".to_string(),
        phase,
        tier,
        seed,
        evaluations,
        distinct_nontrivial: distinct.len() as u64,
        rule: "one evaluation = one damaged copy of a file produced by the real builders (SST, log, manifest fragment, or one file of a store directory produced by a seeded history) observed through the real readers; damage = bit flip / byte overwrite at an offset (every offset for files <= 8 KiB, boundary-biased sample above), every truncation length, appended suffixes, 2-3 step sequences; distinct non-trivial = distinct (file kind, damage kind, file region, outcome)".to_string(),
        samples,
        wall_s: wall,
        violations: new_classes,
        known_findings: known_out,
        extra,
    };
    part.write(&out_path);
    println!("bytesim {prop} [{mode}]: {files} files, {evaluations} damaged observations, {} distinct cases, {wall:.1}s, new violation classes: {new_classes}", distinct.len());
    util::cleanup_scratch();
    exit
}

pub fn replay(text: &str, path: &Path) -> i32 {
    let r: BReplay = match serde_json::from_str(text) {
        Ok(r) => r,
        Err(e) => {
            eprintln!("HARNESS-ERROR: cannot parse {}: {e}", path.display());
            return 2;
        }
    };
    let viols = if r.engine == "bytesim-log" {
        let mut stats = CaseStats::default();
        match log_roundtrip(&r.recipe, 0, &mut stats) {
            Ok(_) => stats.viols,
            Err(e) => {
                eprintln!("HARNESS-ERROR: {e}");
                return 2;
            }
        }
    } else {
        match examine(&r.recipe, 0, false, Some((&r.file, &r.damage)), None) {
            Ok(s) => s.viols,
            Err(e) => {
                eprintln!("HARNESS-ERROR: {e}");
                return 2;
            }
        }
    };
    match viols.iter().find(|v| v.0 == r.class) {
        Some(v) => {
            println!("reproduced: class={} {}", v.0, v.1.chars().take(400).collect::<String>());
            println!("VIOLATION property={} replay={}", r.property, path.display());
            1
        }
        None => {
            println!("NOT-REPRODUCED: expected class {} (seen {:?})", r.class, viols.iter().map(|v| &v.0).collect::<Vec<_>>());
            0
        }
    }
}
