//! crashsim: crash-point and single-fault enumeration on top of the sequential executor.
//!
//! For a history H: run it once recording the ordered trace of mutating system calls (with the
//! driver's operation markers).  Then
//!   * for every crash point k (a prefix of k completed calls) and each persistence model, build
//!     the image, reopen it with the real code and judge what is read back;
//!   * for every call j and errno in {EIO, ENOSPC}, re-execute H with exactly that call failing;
//!     for every write also with that call transferring only half its bytes (short write), and
//!     for every write and sync with that call interrupted (EINTR): the operation must complete.

use std::collections::{BTreeMap, BTreeSet};
use std::panic::{catch_unwind, AssertUnwindSafe};
use std::path::{Path, PathBuf};

use serde::{Deserialize, Serialize};
use serde_json::json;

use crate::exec::{self, err_class, fmt_key, fmt_val, panic_class, Exec, Oracles, Probes, Violation};
use crate::fsx::{self, Ev, Fault};
use crate::hist::{self, History, Op, Profile};
use crate::image::{Image, Persist};
use crate::model::{self, Map};
use crate::rng::{self, Rng};
use crate::seq::{self, Replay};
use crate::util::{self, Args, KnownFindings, Part};

#[derive(Clone, Debug, Serialize, Deserialize, PartialEq, Eq)]
pub struct CrashPoint {
    /// Number of mutating calls that completed before the crash.
    pub k: u64,
    pub persist: Persist,
}

#[derive(Clone, Debug, Serialize, Deserialize, PartialEq, Eq)]
pub struct FaultPoint {
    pub at: u64,
    pub errno: i32,
}

/// Where a crash point falls relative to the driver's operations.
#[derive(Clone, Debug)]
struct PointInfo {
    /// index into the trace of the mutating event that would have been next
    event_idx: usize,
    /// ops fully acknowledged (returned Ok) before this point
    acked: usize,
    /// the op in flight, if any
    in_flight: Option<usize>,
    /// kind of the call that would have been next, and a coarse protocol phase
    next_kind: &'static str,
}

fn analyse(trace: &[Ev]) -> Vec<PointInfo> {
    let mut out = Vec::new();
    let mut acked = 0usize;
    let mut in_flight: Option<usize> = None;
    for (idx, ev) in trace.iter().enumerate() {
        match ev {
            Ev::Mark(m) => {
                // "op <i> <kind> begin|ok|err|panic", "open begin|end"
                let parts: Vec<&str> = m.split(' ').collect();
                if parts.len() == 4 && parts[0] == "op" {
                    let i: usize = parts[1].parse().unwrap_or(0);
                    match parts[3] {
                        "begin" => in_flight = Some(i),
                        "ok" => {
                            in_flight = None;
                            acked = i + 1;
                        }
                        _ => in_flight = None,
                    }
                }
            }
            e if e.is_mutation() => {
                out.push(PointInfo {
                    event_idx: idx,
                    acked,
                    in_flight,
                    next_kind: e.kind(),
                });
            }
            _ => {}
        }
    }
    // the point after the last call
    out.push(PointInfo {
        event_idx: trace.len(),
        acked,
        in_flight: None,
        next_kind: "end",
    });
    out
}

fn observe(ex: &Exec) -> Result<Map, String> {
    let mut m = Map::new();
    let store = ex.store.as_ref().ok_or("store closed")?;
    for k in ex.h.keys.iter() {
        let (v, _) = store.load(&k.0)?;
        m.insert(k.0.clone(), v);
    }
    Ok(m)
}

fn normalise(model: &Map, h: &History) -> Map {
    let mut m = Map::new();
    for k in h.keys.iter() {
        m.insert(k.0.clone(), model.get(&k.0).cloned().flatten());
    }
    m
}

fn describe_diff(obs: &Map, want: &Map) -> String {
    for (k, v) in obs.iter() {
        let w = want.get(k).cloned().flatten();
        if *v != w {
            return format!("key {}: read {}, expected {}", fmt_key(k), fmt_val(v), fmt_val(&w));
        }
    }
    "no difference".to_string()
}

/// Judge a reopened image.  `s_prev`: every acknowledged write; `s_next`: additionally the
/// in-flight client write, if one was in flight.
#[allow(clippy::too_many_arguments)]
fn judge_image(
    h: &History,
    dir: &Path,
    s_prev: &Map,
    s_next: Option<&Map>,
    in_flight_kind: Option<&'static str>,
    riders: bool,
    second_verifier_pass: bool,
    probes: &mut Probes,
) -> Vec<Violation> {
    let mut oracles = Oracles::default();
    oracles.c04 = riders;
    let mut ex = Exec::new(h, dir, oracles);
    let out: std::cell::RefCell<Vec<Violation>> = std::cell::RefCell::new(Vec::new());
    let v = |p: &str, class: String, detail: String| {
        out.borrow_mut().push(Violation {
            property: p.to_string(),
            class,
            op_index: 0,
            detail,
        });
    };
    exec::quiet_panics(true);
    if riders {
        // C08 rider: the recovery itself is watched (what it renames and unlinks, judged against
        // the manifest state of that moment, starting from the image as found on disk)
        ex.c08 = crate::files::FileWatch::from_disk(dir);
        fsx::install(dir, None);
    }
    let opened = catch_unwind(AssertUnwindSafe(|| ex.open()));
    if riders {
        let recovery_rule = crate::files::check_recorded(&mut ex);
        let _ = fsx::uninstall();
        if let Some((class, detail)) = recovery_rule {
            probes.hit("recovery_file_discipline_violations");
            v("C08", format!("during-recovery:{class}"), detail);
        } else {
            probes.hit("recoveries_watched_for_file_discipline");
        }
    }
    match opened {
        Err(_) => {
            let p = exec::take_panic();
            v("C02", format!("reopen-panicked:{}", panic_class(&p)), format!("reopening the crash image panicked: {p}"));
            exec::quiet_panics(false);
            return out.into_inner();
        }
        Ok(Err(e)) => {
            v("C02", format!("reopen-failed:{}", err_class(&e)), format!("reopening the crash image failed: {e}"));
            exec::quiet_panics(false);
            return out.into_inner();
        }
        Ok(Ok(())) => {}
    }
    probes.hit("images_reopened");
    // Known recovery defect F-C01-1: every reopen of an image is a recovery.  When the recovered
    // tree carries that defect's signature, what is read from it is attributed to it.
    let misorder = ex.recovery_misorder_signature();
    if misorder.is_some() {
        probes.hit("images_recovered_with_misordered_levels_F-C01-1");
    }
    let v = |p: &str, class: String, detail: String| match misorder.as_ref() {
        Some(m) if !class.starts_with("reopen-") => v(p, format!("misordered-levels-from-reopen:{class}"), format!("{detail} [{m}]")),
        _ => v(p, class, detail),
    };
    let want_prev = normalise(s_prev, h);
    let want_next = s_next.map(|m| normalise(m, h));
    let r = catch_unwind(AssertUnwindSafe(|| observe(&ex)));
    match r {
        Err(_) => {
            let p = exec::take_panic();
            v("C02", format!("read-panicked-after-crash:{}", panic_class(&p)), format!("{p}"));
        }
        Ok(Err(e)) => {
            v("C02", format!("read-error-after-crash:{}", err_class(&e)), e);
        }
        Ok(Ok(obs)) => {
            let ok_prev = obs == want_prev;
            let ok_next = want_next.as_ref().map(|w| obs == *w).unwrap_or(false);
            if ok_next {
                probes.hit("in_flight_write_survived");
            } else if ok_prev && want_next.is_some() {
                probes.hit("in_flight_write_absent");
            }
            if !ok_prev && !ok_next {
                // classify
                let mut class = "unexpected-state-after-crash";
                if let Some(wn) = want_next.as_ref() {
                    // keys on which prev and next differ
                    let touched: Vec<&Vec<u8>> = want_prev
                        .keys()
                        .filter(|k| want_prev.get(*k) != wn.get(*k))
                        .collect();
                    let others_ok = obs
                        .iter()
                        .all(|(k, val)| touched.contains(&k) || want_prev.get(k) == Some(val));
                    let each_is_old_or_new = touched.iter().all(|k| {
                        obs.get(*k) == want_prev.get(*k) || obs.get(*k) == wn.get(*k)
                    });
                    if others_ok && each_is_old_or_new {
                        class = "in-flight-batch-partially-applied";
                    }
                }
                if class == "unexpected-state-after-crash" {
                    let lost = obs.iter().any(|(k, val)| {
                        let w = want_prev.get(k).cloned().flatten();
                        w.is_some() && val.is_none()
                    });
                    let never = obs.iter().any(|(k, val)| {
                        val.is_some()
                            && want_prev.get(k) != Some(val)
                            && want_next.as_ref().map(|w| w.get(k) != Some(val)).unwrap_or(true)
                    });
                    class = if never {
                        "stale-or-foreign-value-after-crash"
                    } else if lost {
                        "acknowledged-write-lost-after-crash"
                    } else {
                        "deleted-key-resurrected-after-crash"
                    };
                }
                v(
                    "C02",
                    class.to_string(),
                    format!(
                        "{} (in flight: {:?})",
                        describe_diff(&obs, &want_prev),
                        in_flight_kind
                    ),
                );
            }
        }
    }
    if out.borrow().is_empty() {
        // nothing outside the universe
        let store: &exec::Store = ex.store.as_ref().unwrap();
        let lo = std::ops::Bound::Unbounded;
        let hi = std::ops::Bound::Unbounded;
        let r = catch_unwind(AssertUnwindSafe(|| -> Result<Vec<Vec<u8>>, String> {
            let mut c = store.scan(&lo, &hi)?;
            let cur: &mut dyn sst::Cursor = c.as_mut();
            cur.seek_to_first().map_err(|e| format!("{e}"))?;
            let mut keys = Vec::new();
            loop {
                cur.next().map_err(|e| format!("{e}"))?;
                match cur.key() {
                    Some(k) => keys.push(k.key.to_vec()),
                    None => break,
                }
                if keys.len() > 10_000 {
                    break;
                }
            }
            Ok(keys)
        }));
        if let Ok(Ok(keys)) = r {
            for k in keys {
                if !h.keys.iter().any(|hk| hk.0 == k) {
                    v("C02", "foreign-key-after-crash".to_string(), format!("scan returned {}", fmt_key(&k)));
                    break;
                }
            }
        } else {
            probes.hit("scan_failed_after_crash_not_judged_here");
        }
    }
    if out.borrow().is_empty() && riders {
        ex.model = s_prev.clone();
        let r = catch_unwind(AssertUnwindSafe(|| crate::books::check(&mut ex)));
        if r.is_err() {
            let p = exec::take_panic();
            v("C04", format!("books-panicked:{}", panic_class(&p)), p);
        }
        let found: Vec<Violation> = ex.violations.drain(..).collect();
        for mut x in found {
            if x.class.starts_with("rollover:") {
                // Does the real verifier reject this image once the fragment is old enough to be
                // processed?  Two more reopen cycles roll the manifest over twice.
                let r = catch_unwind(AssertUnwindSafe(|| -> Result<(), String> {
                    ex.open()?;
                    ex.open()?;
                    let opts = exec::build_options(h, dir);
                    let mut ver = lsmtk::LsmVerifier::open(opts).map_err(|e| format!("{e}"))?;
                    ver.verify().map_err(|e| format!("{e}"))
                }));
                match r {
                    Ok(Ok(())) => x.detail.push_str(" [LsmVerifier accepted the image]"),
                    Ok(Err(e)) => x.detail.push_str(&format!(" [LsmVerifier rejects the image: {}]", err_class(&e))),
                    Err(_) => {
                        let p = exec::take_panic();
                        x.detail.push_str(&format!(" [LsmVerifier panicked: {p}]"));
                    }
                }
            }
            out.borrow_mut().push(x);
        }
        probes.hit("images_books_checked");
    }
    if out.borrow().is_empty() {
        // operable: a fresh write, a read, a flush and a compaction step
        let r = catch_unwind(AssertUnwindSafe(|| -> Result<(), String> {
            if let Some(exec::Store::Kvs(k)) = ex.store.as_ref() {
                k.put(b"\x01probe", b"probe-value").map_err(|e| format!("{e}"))?;
                let mut t = false;
                let got = k.load(b"\x01probe", &mut t).map_err(|e| format!("{e}"))?;
                if got.as_deref() != Some(b"probe-value".as_slice()) {
                    return Err("probe write not readable".to_string());
                }
            }
            match ex.flush_step() {
                Ok(()) => {}
                Err(e) if e == "WOULD-DEADLOCK" => {}
                Err(e) => return Err(e),
            }
            ex.compact_step()?;
            Ok(())
        }));
        match r {
            Err(_) => {
                let p = exec::take_panic();
                v("C02", format!("recovered-store-panicked:{}", panic_class(&p)), p);
            }
            Ok(Err(e)) => v("C02", format!("recovered-store-not-operable:{}", err_class(&e)), e),
            Ok(Ok(())) => probes.hit("images_operable"),
        }
    }
    if out.borrow().is_empty() && second_verifier_pass {
        // An interrupted verifier pass followed by a complete one, then reopen: unchanged.
        let r = catch_unwind(AssertUnwindSafe(|| -> Result<(), String> {
            let opts = exec::build_options(h, dir);
            let mut ver = lsmtk::LsmVerifier::open(opts).map_err(|e| format!("open: {e}"))?;
            match ver.verify() {
                Ok(()) => {}
                Err(e) if lsmtk::error_code(&e) == Some(lsmtk::CODE_BACKOFF) => {}
                Err(e) => return Err(format!("{e}")),
            }
            drop(ver);
            ex.open()?;
            let obs = observe(&ex)?;
            let mut want = want_prev.clone();
            if let Some(wn) = want_next.as_ref() {
                if obs == *wn {
                    want = wn.clone();
                }
            }
            // the probe key is not part of the universe, so `obs` is unaffected by it
            if obs != want {
                // this reopen was a recovery too
                if let Some(m) = ex.recovery_misorder_signature() {
                    return Err(format!("MISORDERED-CONTENTS {} [{m}]", describe_diff(&obs, &want)));
                }
                return Err(format!("CONTENTS {}", describe_diff(&obs, &want)));
            }
            Ok(())
        }));
        match r {
            Err(_) => {
                let p = exec::take_panic();
                v("C08", format!("verifier-after-crash-panicked:{}", panic_class(&p)), p);
            }
            Ok(Err(e)) if e.starts_with("CONTENTS") => {
                v("C08", "contents-changed-after-verifier-pass-on-crash-image".to_string(), e)
            }
            Ok(Err(e)) if e.starts_with("MISORDERED-CONTENTS") => {
                probes.hit("images_recovered_with_misordered_levels_F-C01-1");
                v("C08", "misordered-levels-from-reopen:contents-changed-after-verifier-pass-on-crash-image".to_string(), e)
            }
            Ok(Err(e)) => {
                // a verifier that cannot proceed is C04's accept half
                v("C04", format!("verifier-rejects-crash-image:{}", err_class(&e)), e)
            }
            Ok(Ok(())) => probes.hit("images_verifier_pass_then_reopen_unchanged"),
        }
    }
    let _ = catch_unwind(AssertUnwindSafe(|| ex.close()));
    exec::quiet_panics(false);
    out.into_inner()
}

struct Recorded {
    trace: Vec<Ev>,
    points: Vec<PointInfo>,
    ok: bool,
    probes: Probes,
}

fn record(h: &History, root: &Path) -> Recorded {
    let cfg = exec::RunCfg {
        root: root.to_path_buf(),
        oracles: Oracles::default(),
        record_fs: true,
        fault: None,
        stop_at_first: true,
        ops_after_fault: 0,
    };
    let out = Exec::run(h, &cfg);
    let all_ok = out
        .op_results
        .iter()
        .all(|r| matches!(r, exec::OpResult::Ok))
        && out.violations.iter().all(|v| {
            // read-only failures of other properties do not invalidate the recording
            v.property == "C03" || v.property == "C07"
        });
    let points = analyse(&out.trace);
    Recorded {
        trace: out.trace,
        points,
        ok: all_ok,
        probes: out.probes,
    }
}

fn sample_points(n: usize, max_points: usize, rng: &mut Rng, trace: &[Ev], points: &[PointInfo]) -> Vec<usize> {
    if n <= max_points {
        return (0..n).collect();
    }
    let mut chosen: BTreeSet<usize> = BTreeSet::new();
    chosen.insert(0);
    chosen.insert(n - 1);
    // always: calls adjacent to link / rename / unlink / manifest appends
    for (i, p) in points.iter().enumerate() {
        if matches!(p.next_kind, "link" | "rename" | "unlink") {
            chosen.insert(i);
            if i + 1 < n {
                chosen.insert(i + 1);
            }
        }
        if let Some(Ev::Open { path, .. }) = trace.get(p.event_idx) {
            if path.starts_with("mani/") {
                chosen.insert(i);
            }
        }
    }
    while chosen.len() < max_points.min(n) {
        chosen.insert(rng.usize_below(n));
    }
    chosen.into_iter().take(max_points.max(64)).collect()
}

fn states_for(h: &History, p: &PointInfo) -> (Map, Option<Map>, Option<&'static str>) {
    let s_prev = model::state_after(h, p.acked);
    match p.in_flight {
        Some(i) if i < h.ops.len() => {
            let kind = h.ops[i].kind();
            if h.ops[i].is_client_write() && i >= p.acked {
                let mut s_next = s_prev.clone();
                model::apply_op(&mut s_next, h, i, &h.ops[i]);
                (s_prev, Some(s_next), Some(kind))
            } else {
                (s_prev, None, Some(kind))
            }
        }
        _ => (s_prev, None, None),
    }
}

#[derive(Default)]
struct HistoryResult {
    images: u64,
    images_b_identical: u64,
    fault_runs: u64,
    distinct_cases: BTreeSet<String>,
    violations: Vec<(Violation, Option<CrashPoint>, Option<FaultPoint>)>,
    probes: Probes,
    calls: u64,
    skipped_bad_recording: bool,
    faults_fired: BTreeMap<String, u64>,
    fault_outcomes: BTreeMap<String, u64>,
    sample: Option<serde_json::Value>,
}

fn phase_of(trace: &[Ev], p: &PointInfo) -> String {
    // coarse protocol phase: which directory the next call touches
    let path = match trace.get(p.event_idx) {
        Some(Ev::Open { path, .. }) => path.clone(),
        Some(Ev::Link { new, .. }) => new.clone(),
        Some(Ev::Rename { new, .. }) => new.clone(),
        Some(Ev::Unlink { path }) => path.clone(),
        Some(Ev::Mkdir { path }) => path.clone(),
        Some(Ev::Rmdir { path }) => path.clone(),
        _ => String::new(),
    };
    let dir = path.split('/').next().unwrap_or("");
    if dir.starts_with("log.") {
        "log".to_string()
    } else {
        dir.to_string()
    }
}

#[allow(clippy::too_many_arguments)]
fn crash_history(
    h: &History,
    worker: usize,
    max_points: usize,
    do_crash: bool,
    do_faults: bool,
    max_faults: usize,
    riders: bool,
    seed: u64,
) -> HistoryResult {
    let mut res = HistoryResult::default();
    let base = util::scratch_for(worker);
    let rec_root = base.join("rec");
    let rec = record(h, &rec_root);
    if !rec.ok {
        res.skipped_bad_recording = true;
        return res;
    }
    res.probes.merge(&rec.probes);
    let n = rec.points.len();
    res.calls = (n - 1) as u64;
    let mut rng = Rng::new(rng::mix(&[seed, h.seed, 77]));
    let chosen = sample_points(n, max_points, &mut rng, &rec.trace, &rec.points);
    res.sample = Some(json!({
        "history": h.summary(),
        "mutating_calls": n - 1,
        "crash_points_examined": chosen.len(),
        "first_calls": rec.trace.iter().filter(|e| e.is_mutation()).take(12).map(|e| e.describe()).collect::<Vec<_>>(),
    }));
    if do_crash {
        let chosen_set: BTreeSet<usize> = chosen.iter().copied().collect();
        let mut image = Image::new();
        let mut next_point = 0usize;
        let img_dir = base.join("img");
        for (idx, ev) in rec.trace.iter().enumerate() {
            while next_point < n && rec.points[next_point].event_idx == idx {
                if chosen_set.contains(&next_point) {
                    examine_point(h, &rec, next_point, &image, &img_dir, riders, seed, &mut res);
                }
                next_point += 1;
            }
            image.step(ev);
        }
        while next_point < n {
            if chosen_set.contains(&next_point) {
                examine_point(h, &rec, next_point, &image, &img_dir, riders, seed, &mut res);
            }
            next_point += 1;
        }
        let _ = std::fs::remove_dir_all(&img_dir);
    }
    if do_faults {
        let total = n - 1;
        let mut js: Vec<usize> = if total <= max_faults {
            (0..total).collect()
        } else {
            let mut s = BTreeSet::new();
            while s.len() < max_faults {
                s.insert(rng.usize_below(total));
            }
            s.into_iter().collect()
        };
        js.sort();
        for j in js {
            for errno in [libc::EIO, libc::ENOSPC, libc::EINTR, fsx::SHORT_WRITE] {
                let kind = rec.points[j].next_kind;
                if errno == libc::ENOSPC && !matches!(kind, "write" | "create" | "mkdir" | "link") {
                    continue;
                }
                // an interrupted call and a short transfer are not errors: the caller has to
                // carry on, and the operation has to complete as if nothing had happened
                if errno == libc::EINTR && !matches!(kind, "write" | "sync") {
                    continue;
                }
                if errno == fsx::SHORT_WRITE && kind != "write" {
                    continue;
                }
                fault_run(h, &base.join("flt"), j as u64, errno, &rec, &mut res);
            }
        }
    }
    res
}

#[allow(clippy::too_many_arguments)]
fn examine_point(
    h: &History,
    rec: &Recorded,
    pi: usize,
    image: &Image,
    img_dir: &Path,
    riders: bool,
    seed: u64,
    res: &mut HistoryResult,
) {
    let p = &rec.points[pi];
    let (s_prev, s_next, kind) = states_for(h, p);
    let mut persists = vec![Persist::A];
    if image.has_unsynced() {
        persists.push(Persist::BNone);
        persists.push(Persist::BSome(rng::mix(&[seed, pi as u64])));
    } else {
        res.images_b_identical += 2;
    }
    for persist in persists {
        let _ = std::fs::remove_dir_all(img_dir);
        if let Err(e) = image.materialize(img_dir, persist) {
            eprintln!("HARNESS-ERROR: materialize: {e}");
            std::process::exit(2);
        }
        res.images += 1;
        let pm = match persist {
            Persist::A => "A",
            Persist::BNone => "B0",
            Persist::BSome(_) => "Bn",
        };
        res.distinct_cases.insert(format!(
            "{}|{}|{}|{pm}",
            p.next_kind,
            kind.unwrap_or("between-ops"),
            phase_of(&rec.trace, p)
        ));
        *res.probes.0.entry(format!("crash_before_{}", p.next_kind)).or_insert(0) += 1;
        let second = kind == Some("verify") || (pi % 7 == 0);
        util::heartbeat();
        let vs = judge_image(h, img_dir, &s_prev, s_next.as_ref(), kind, riders, second, &mut res.probes);
        for v in vs {
            res.violations.push((
                v,
                Some(CrashPoint {
                    k: pi as u64,
                    persist,
                }),
                None,
            ));
        }
    }
}

/// Re-execute the history with call `j` failing.
fn fault_run(h: &History, root: &Path, j: u64, errno: i32, rec: &Recorded, res: &mut HistoryResult) {
    res.fault_runs += 1;
    let _ = std::fs::remove_dir_all(root);
    std::fs::create_dir_all(root).expect("fault root");
    let mut ex = Exec::new(h, root, Oracles::default());
    fsx::install(root, Some(Fault { at: j, errno }));
    exec::quiet_panics(true);
    let violations: std::cell::RefCell<Vec<Violation>> = std::cell::RefCell::new(Vec::new());
    let v = |class: String, detail: String| {
        violations.borrow_mut().push(Violation {
            property: "C02".to_string(),
            class,
            op_index: 0,
            detail,
        });
    };
    let ename = match errno {
        libc::EIO => "EIO",
        libc::ENOSPC => "ENOSPC",
        libc::EINTR => "EINTR",
        fsx::SHORT_WRITE => "SHORT-WRITE",
        _ => "errno",
    };
    // EINTR and a short transfer are not failures of the device: success of the operation is
    // the expected outcome, not a swallowed error.
    let benign = errno == libc::EINTR || errno == fsx::SHORT_WRITE;
    // The fault may fire during the initial open.
    let mut outcome = "not-fired";
    let mut prev = Map::new();
    let mut next: Option<Map> = None;
    let opened = catch_unwind(AssertUnwindSafe(|| ex.open()));
    let mut alive = true;
    match opened {
        Err(_) => {
            let p = exec::take_panic();
            v(format!("panic-under-io-error:{}", panic_class(&p)), format!("initial open with {ename} at call {j}: {p}"));
            alive = false;
        }
        Ok(Err(_)) => {
            alive = false;
            outcome = if fsx::fault_fired().is_some() { "open-returned-error" } else { "open-error-without-fault" };
        }
        Ok(Ok(())) => {
            if fsx::fault_fired().is_some() {
                let fired = fsx::fault_fired().unwrap();
                if !benign && !best_effort_site(&fired) {
                    v("io-error-swallowed:open".to_string(), format!("{fired} during open, open returned Ok"));
                }
                outcome = "open-swallowed";
            }
        }
    }
    let mut fired_at: Option<usize> = None;
    if alive && fsx::fault_fired().is_none() {
        for (i, op) in h.ops.iter().enumerate() {
            ex.cur_op = i;
            let r = catch_unwind(AssertUnwindSafe(|| ex.debug_exec_no_model(i, op)));
            let fired = fsx::fault_fired();
            if std::env::var("STORESIM_FAULT_DEBUG").is_ok() {
                eprintln!("op {i} {:?} -> {:?} fired={:?}\n{}", op, r.as_ref().map_err(|_| "panic"), fired, ex.dump_levels());
            }
            match (&r, fired.as_ref()) {
                (Ok(Ok(())), None) => {
                    model::apply_op(&mut prev, h, i, op);
                    continue;
                }
                (_, None) => {
                    // divergence from the recording without a fault: harness problem
                    outcome = "diverged-before-fault";
                    alive = false;
                    break;
                }
                (Err(_), Some(f)) => {
                    let p = exec::take_panic();
                    v(
                        format!("panic-under-io-error:{}:{}", op.kind(), panic_class(&p)),
                        format!("{f} during {}: {p}", op.kind()),
                    );
                    alive = false;
                    break;
                }
                (Ok(Ok(())), Some(f)) => {
                    fired_at = Some(i);
                    outcome = "op-returned-ok";
                    if !benign && !best_effort_site(f) {
                        v(
                            format!("io-error-swallowed:{}:{}", op.kind(), kind_of_fired(f)),
                            format!("{f} during {} but the call returned Ok", op.kind()),
                        );
                    }
                    if op.is_client_write() {
                        // acknowledged => must be present
                        model::apply_op(&mut prev, h, i, op);
                    }
                    break;
                }
                (Ok(Err(_)), Some(_)) => {
                    fired_at = Some(i);
                    outcome = "op-returned-error";
                    if op.is_client_write() {
                        let mut n = prev.clone();
                        model::apply_op(&mut n, h, i, op);
                        next = Some(n);
                    } else if matches!(op, Op::Flush | Op::Compact | Op::CompactMany { .. }) {
                        // The failure hit background work (the flush or a compaction thread
                        // returned the error).  Clients that have not been told anything keep
                        // writing: the next few client writes of the history are issued, and each
                        // one that is acknowledged has to be there after the reopen like any
                        // other.  (With a flush that failed half way this is the state with two
                        // logs that both hold data.)
                        let mut more = 0;
                        for (i2, op2) in h.ops.iter().enumerate().skip(i + 1) {
                            if !op2.is_client_write() {
                                continue;
                            }
                            ex.cur_op = i2;
                            match catch_unwind(AssertUnwindSafe(|| ex.debug_exec_no_model(i2, op2))) {
                                Ok(Ok(())) => {
                                    model::apply_op(&mut prev, h, i2, op2);
                                    more += 1;
                                    *res.fault_outcomes.entry("write-acknowledged-after-failed-background-step".into()).or_insert(0) += 1;
                                }
                                Ok(Err(_)) => {
                                    *res.fault_outcomes.entry("write-refused-after-failed-background-step".into()).or_insert(0) += 1;
                                    break;
                                }
                                Err(_) => {
                                    let p = exec::take_panic();
                                    v(
                                        format!("panic-under-io-error:{}-after-failed-{}:{}", op2.kind(), op.kind(), panic_class(&p)),
                                        format!("{} after a failed {}: {p}", op2.kind(), op.kind()),
                                    );
                                    alive = false;
                                    break;
                                }
                            }
                            if more >= 3 {
                                break;
                            }
                        }
                    }
                    break;
                }
            }
        }
    }
    *res.fault_outcomes.entry(outcome.to_string()).or_insert(0) += 1;
    if let Some(f) = fsx::fault_fired() {
        *res.faults_fired.entry(format!("{}:{}", ename, kind_of_fired(&f))).or_insert(0) += 1;
        res.distinct_cases.insert(format!(
            "fault|{}|{}|{}|{}",
            ename,
            kind_of_fired(&f),
            fired_at.map(|i| h.ops[i].kind()).unwrap_or("open"),
            phase_of(&rec.trace, &rec.points[(j as usize).min(rec.points.len() - 1)])
        ));
    }
    // Live instance: what is readable right after the failed call is one of the two states.
    if alive && violations.borrow().is_empty() && fired_at.is_some() {
        let r = catch_unwind(AssertUnwindSafe(|| observe(&ex)));
        match r {
            Ok(Ok(obs)) => {
                let wp = normalise(&prev, h);
                let wn = next.as_ref().map(|n| normalise(n, h));
                if obs != wp && wn.as_ref().map(|w| obs != *w).unwrap_or(true) {
                    // A history that reopened the store may already be in the state of the known
                    // recovery defect F-C01-1 (key-touching tables with interleaved timestamps
                    // put side by side); then what is readable is wrong before any fault.  Only
                    // when an earlier Reopen of this very run lost the order of two such tables
                    // AND the tree's own lookup disagrees with the newest version in its files.
                    let from_reopen = matches!(ex.level_overlap.as_ref(), Some((_, "reopen", _)));
                    let sig = if from_reopen { ex.recovery_misorder_signature() } else { None };
                    match sig {
                        Some(m) => v(
                            "misordered-levels-from-reopen:wrong-data-readable-after-io-error".to_string(),
                            format!("live store after {ename} at call {j}: {} [{m}]", describe_diff(&obs, &wp)),
                        ),
                        None => v(
                            "wrong-data-readable-after-io-error".to_string(),
                            format!("live store after {ename} at call {j}: {}", describe_diff(&obs, &wp)),
                        ),
                    }
                }
            }
            Ok(Err(_)) => {
                *res.fault_outcomes.entry("live-read-error-after-fault".into()).or_insert(0) += 1;
            }
            Err(_) => {
                let p = exec::take_panic();
                v(format!("panic-under-io-error:read:{}", panic_class(&p)), p);
            }
        }
    }
    let _ = catch_unwind(AssertUnwindSafe(|| ex.close()));
    let _ = fsx::uninstall();
    // Clean reopen without faults.
    if violations.borrow().is_empty() && (fired_at.is_some() || outcome.starts_with("open-")) {
        let mut ex2 = Exec::new(h, root, Oracles::default());
        match catch_unwind(AssertUnwindSafe(|| ex2.open())) {
            Err(_) => {
                let p = exec::take_panic();
                v(format!("reopen-panicked-after-io-error:{}", panic_class(&p)), p);
            }
            Ok(Err(e)) => {
                // The fault is gone and the directory is what a crash after the failed call
                // would have left: reopening it must not need repair.
                *res.fault_outcomes.entry("clean-reopen-failed-with-explicit-error".into()).or_insert(0) += 1;
                v(
                    format!("reopen-failed-after-io-error:{}", err_class(&e)),
                    format!("after {ename} at call {j} the store was closed; a clean reopen fails: {e}"),
                );
            }
            Ok(Ok(())) => match catch_unwind(AssertUnwindSafe(|| observe(&ex2))) {
                Ok(Ok(obs)) => {
                    let wp = normalise(&prev, h);
                    let wn = next.as_ref().map(|n| normalise(n, h));
                    if obs != wp && wn.as_ref().map(|w| obs != *w).unwrap_or(true) {
                        match ex2.recovery_misorder_signature() {
                            Some(m) => v(
                                "misordered-levels-from-reopen:wrong-data-after-io-error-and-reopen".to_string(),
                                format!("after {ename} at call {j} and a clean reopen: {} [{m}]", describe_diff(&obs, &wp)),
                            ),
                            None => v(
                                "wrong-data-after-io-error-and-reopen".to_string(),
                                format!("after {ename} at call {j} and a clean reopen: {}", describe_diff(&obs, &wp)),
                            ),
                        }
                    } else {
                        *res.fault_outcomes.entry("clean-reopen-consistent".into()).or_insert(0) += 1;
                    }
                }
                Ok(Err(_)) => {
                    *res.fault_outcomes.entry("read-error-after-clean-reopen".into()).or_insert(0) += 1;
                }
                Err(_) => {
                    let p = exec::take_panic();
                    v(format!("read-panicked-after-io-error:{}", panic_class(&p)), p);
                }
            },
        }
        let _ = catch_unwind(AssertUnwindSafe(|| ex2.close()));
    }
    exec::quiet_panics(false);
    for x in violations.into_inner() {
        res.violations.push((x, None, Some(FaultPoint { at: j, errno })));
    }
}

fn kind_of_fired(f: &str) -> String {
    // "call#12 write h3 errno=5" -> "write"
    f.split(' ').nth(1).unwrap_or("?").to_string()
}

/// The two call sites the code documents as best effort: renaming a retired SST into trash/.
fn best_effort_site(fired: &str) -> bool {
    fired.contains(" rename sst/") && fired.contains(" trash/")
}

pub fn cmd_crash(args: &Args) -> i32 {
    let prop = args.str("prop", "C02");
    let tier = args.str("tier", "quick");
    let seed = args.u64("seed", 1);
    let runs = args.u64("runs", 40);
    let threads = args.u64("threads", 16) as usize;
    let budget_s = args.get("budget-s").map(|s| s.parse::<f64>().unwrap());
    let max_points = args.u64("max-points", 400) as usize;
    let max_faults = args.u64("max-faults", 120) as usize;
    let do_crash = args.str("crash", "true") == "true";
    let do_faults = args.str("faults", "true") == "true";
    let phase = args.str("phase", "crash");
    let profiles: Vec<Profile> = args
        .str("profiles", "kvs-short")
        .split(',')
        .map(|n| Profile::by_name(n).unwrap_or_else(|| panic!("unknown profile {n}")))
        .collect();
    let out_path = PathBuf::from(args.str("out", "/verif/evidence/parts/crash.json"));
    let replay_dir = PathBuf::from(args.str("replay-dir", "/verif/replays"));
    let known = KnownFindings::load(Path::new(&args.str("known", "/verif/known_findings.json")));
    let riders = prop != "C02";
    let start = std::time::Instant::now();
    println!(
        "VERIF_SEED={seed} property={prop} engine=crashsim tier={tier} histories={runs} max_points={max_points} crash={do_crash} faults={do_faults}"
    );
    let profiles2 = profiles.clone();
    let results = util::par_map(runs, threads, budget_s, move |r, w| {
        let p = &profiles2[(r % profiles2.len() as u64) as usize];
        let h = hist::generate(seq::history_seed(seed, "crash", r), p);
        let res = crash_history(&h, w, max_points, do_crash, do_faults, max_faults, true, seed);
        (r, h, res)
    });
    let done: Vec<(u64, History, HistoryResult)> = results.into_iter().flatten().collect();
    let mut images = 0u64;
    let mut b_ident = 0u64;
    let mut fault_runs = 0u64;
    let mut calls = 0u64;
    let mut distinct: BTreeSet<String> = BTreeSet::new();
    let mut probes = Probes::default();
    let mut faults_fired: BTreeMap<String, u64> = BTreeMap::new();
    let mut fault_outcomes: BTreeMap<String, u64> = BTreeMap::new();
    let mut skipped = 0u64;
    let mut samples = Vec::new();
    let mut mine: BTreeMap<String, (u64, Violation, Option<CrashPoint>, Option<FaultPoint>)> = BTreeMap::new();
    let mut class_counts: BTreeMap<String, u64> = BTreeMap::new();
    let mut other: BTreeMap<String, u64> = BTreeMap::new();
    for (r, _h, res) in done.iter() {
        images += res.images;
        b_ident += res.images_b_identical;
        fault_runs += res.fault_runs;
        calls += res.calls;
        distinct.extend(res.distinct_cases.iter().cloned());
        probes.merge(&res.probes);
        for (k, v) in res.faults_fired.iter() {
            *faults_fired.entry(k.clone()).or_insert(0) += v;
        }
        for (k, v) in res.fault_outcomes.iter() {
            *fault_outcomes.entry(k.clone()).or_insert(0) += v;
        }
        if res.skipped_bad_recording {
            skipped += 1;
        }
        if samples.len() < 3 {
            if let Some(s) = res.sample.clone() {
                samples.push(s);
            }
        }
        for (v, cp, fp) in res.violations.iter() {
            if v.property == prop {
                *class_counts.entry(v.class.clone()).or_insert(0) += 1;
                mine.entry(v.class.clone())
                    .or_insert((*r, v.clone(), cp.clone(), fp.clone()));
            } else {
                *other.entry(format!("{}:{}", v.property, v.class)).or_insert(0) += 1;
            }
        }
    }
    let _ = riders;
    // triage
    let mut exit = 0;
    let mut known_out = Vec::new();
    let mut new_classes = 0u64;
    let mut reported = 0;
    for (class, (r, v, cp, fp)) in mine.iter() {
        if let Some(f) = known.matches(&prop, class) {
            println!(
                "KNOWN-FINDING: property={prop} class={} seen={} {}",
                f.class,
                class_counts.get(class).copied().unwrap_or(0),
                f.description
            );
            known_out.push(format!("{class} (seen {} times)", class_counts.get(class).copied().unwrap_or(0)));
            continue;
        }
        new_classes += 1;
        if reported >= 3 {
            continue;
        }
        reported += 1;
        let h = &done.iter().find(|(rr, _, _)| rr == r).unwrap().1;
        let (hmin, cpmin, fpmin) = minimise_crash(h, &prop, class, cp.clone(), fp.clone(), seed);
        let replay = Replay {
            property: prop.clone(),
            engine: if fpmin.is_some() { "faultsim" } else { "crashsim" }.to_string(),
            class: class.clone(),
            detail: v.detail.clone(),
            verif_seed: seed,
            run_index: *r,
            original_ops: h.ops.len(),
            history: hmin,
            crash: cpmin,
            fault: fpmin,
        };
        match seq::write_and_confirm_replay(&replay, &replay_dir) {
            Ok(path) => {
                println!("violation class={class} history={r} {:?} {:?}: {}", replay.crash, replay.fault, v.detail);
                println!("VIOLATION property={prop} replay={}", path.display());
                exit = 1;
            }
            Err(e) => {
                eprintln!("HARNESS-ERROR: {e}");
                util::cleanup_scratch();
                return 2;
            }
        }
    }
    let wall = start.elapsed().as_secs_f64();
    let mut extra = BTreeMap::new();
    extra.insert("histories".to_string(), json!(done.len()));
    extra.insert("histories_skipped_recording_not_clean".to_string(), json!(skipped));
    extra.insert("mutating_calls_recorded".to_string(), json!(calls));
    extra.insert("crash_images_reopened".to_string(), json!(images));
    extra.insert("model_b_images_identical_to_model_a_not_rerun".to_string(), json!(b_ident));
    extra.insert("single_fault_runs".to_string(), json!(fault_runs));
    extra.insert("faults_fired_by_errno_and_call".to_string(), json!(faults_fired));
    extra.insert("fault_outcomes".to_string(), json!(fault_outcomes));
    extra.insert("probes".to_string(), json!(probes.0));
    extra.insert("images_per_hour".to_string(), json!((images as f64 / wall * 3600.0) as u64));
    extra.insert("violation_classes_seen".to_string(), json!(class_counts));
    extra.insert("other_property_observations".to_string(), json!(other));
    let part = Part {
        property_id: prop.clone(),
        engine: "crashsim".to_string(),
        phase,
        tier,
        seed,
        evaluations: images + fault_runs,
        distinct_nontrivial: distinct.len() as u64,
        rule: "one evaluation = one crash image (a prefix of the recorded system-call trace of a seeded history, under persistence model A = every completed call persists, B0 = unsynced file bytes lost, Bn = a seeded prefix of each file's unsynced whole writes survives) materialised and reopened with the real code, or one re-execution of the history with exactly one call failing with EIO/ENOSPC, being interrupted (EINTR, writes and syncs) or transferring half its bytes (short write); distinct non-trivial = distinct (next call kind, operation in flight, directory the call touches, persistence model) for images and (errno, call kind, operation, directory) for faults".to_string(),
        samples,
        wall_s: wall,
        violations: new_classes,
        known_findings: known_out,
        extra,
    };
    part.write(&out_path);
    println!(
        "crashsim {prop}: {} histories, {} images, {} fault runs, {} distinct cases, {:.1}s, new violation classes: {}",
        done.len(),
        images,
        fault_runs,
        distinct.len(),
        wall,
        new_classes
    );
    util::cleanup_scratch();
    exit
}

/// Does `h` with the given crash point / fault show `class` for `prop`?
fn reproduces(
    h: &History,
    prop: &str,
    class: &str,
    cp: &Option<CrashPoint>,
    fp: &Option<FaultPoint>,
    search_all_points: bool,
    seed: u64,
    worker: usize,
) -> Option<(Option<CrashPoint>, Option<FaultPoint>, Violation)> {
    let base = util::scratch_for(worker).join("repro");
    let rec = record(h, &base.join("rec"));
    if !rec.ok {
        return None;
    }
    let n = rec.points.len();
    if let Some(fp) = fp {
        let mut res = HistoryResult::default();
        let candidates: Vec<u64> = if search_all_points {
            (0..(n as u64 - 1)).collect()
        } else {
            vec![fp.at]
        };
        for at in candidates {
            if at as usize >= n {
                continue;
            }
            res.violations.clear();
            fault_run(h, &base.join("flt"), at, fp.errno, &rec, &mut res);
            if let Some((v, _, f)) = res
                .violations
                .iter()
                .find(|(v, _, _)| v.property == prop && v.class == class)
            {
                return Some((None, f.clone(), v.clone()));
            }
        }
        return None;
    }
    let cp = cp.as_ref()?;
    let mut image = Image::new();
    let mut next_point = 0usize;
    let img_dir = base.join("img");
    let mut probes = Probes::default();
    let mut try_point = |pi: usize, image: &Image| -> Option<Violation> {
        let p = &rec.points[pi];
        let (s_prev, s_next, kind) = states_for(h, p);
        let _ = std::fs::remove_dir_all(&img_dir);
        image.materialize(&img_dir, cp.persist).ok()?;
        let vs = judge_image(h, &img_dir, &s_prev, s_next.as_ref(), kind, true, kind == Some("verify") || pi % 7 == 0, &mut probes);
        vs.into_iter().find(|v| v.property == prop && v.class == class)
    };
    for (idx, ev) in rec.trace.iter().enumerate() {
        while next_point < n && rec.points[next_point].event_idx == idx {
            if search_all_points || next_point as u64 == cp.k {
                if let Some(v) = try_point(next_point, &image) {
                    return Some((
                        Some(CrashPoint {
                            k: next_point as u64,
                            persist: cp.persist,
                        }),
                        None,
                        v,
                    ));
                }
            }
            next_point += 1;
        }
        image.step(ev);
    }
    while next_point < n {
        if search_all_points || next_point as u64 == cp.k {
            if let Some(v) = try_point(next_point, &image) {
                return Some((
                    Some(CrashPoint {
                        k: next_point as u64,
                        persist: cp.persist,
                    }),
                    None,
                    v,
                ));
            }
        }
        next_point += 1;
    }
    let _ = seed;
    None
}

fn minimise_crash(
    h: &History,
    prop: &str,
    class: &str,
    cp: Option<CrashPoint>,
    fp: Option<FaultPoint>,
    seed: u64,
) -> (History, Option<CrashPoint>, Option<FaultPoint>) {
    let start = std::time::Instant::now();
    let mut best = h.clone();
    let mut best_cp = cp.clone();
    let mut best_fp = fp.clone();
    // prefer the simplest persistence model that still fails
    if let Some(c) = cp.as_ref() {
        if c.persist != Persist::A {
            let alt = Some(CrashPoint {
                k: c.k,
                persist: Persist::A,
            });
            if reproduces(&best, prop, class, &alt, &None, false, seed, 0).is_some() {
                best_cp = alt;
            }
        }
    }
    // truncate the history after the op that was in flight, then ddmin on ops
    let mut chunk = (best.ops.len() / 2).max(1);
    while start.elapsed().as_secs_f64() < 45.0 {
        let mut i = 0;
        let mut progressed = false;
        while i < best.ops.len() && start.elapsed().as_secs_f64() < 45.0 {
            let end = (i + chunk).min(best.ops.len());
            let mut cand = best.clone();
            cand.ops.drain(i..end);
            if let Some((c, f, _)) = reproduces(&cand, prop, class, &best_cp, &best_fp, true, seed, 0) {
                best = cand;
                best_cp = c.or(best_cp);
                best_fp = f.or(best_fp);
                progressed = true;
            } else {
                i += chunk;
            }
        }
        if chunk == 1 {
            if !progressed {
                break;
            }
        } else {
            chunk /= 2;
        }
    }
    // re-anchor the crash point on the final history (earliest point with the class)
    if let Some((c, f, _)) = reproduces(&best, prop, class, &best_cp, &best_fp, true, seed, 0) {
        best_cp = c.or(best_cp);
        best_fp = f.or(best_fp);
    }
    (best, best_cp, best_fp)
}

pub fn replay(r: &Replay, path: &Path) -> i32 {
    let found = reproduces(&r.history, &r.property, &r.class, &r.crash, &r.fault, false, r.verif_seed, 0);
    match found {
        Some((cp, fp, v)) => {
            println!("reproduced: class={} crash={cp:?} fault={fp:?} {}", v.class, v.detail);
            println!("VIOLATION property={} replay={}", r.property, path.display());
            1
        }
        None => {
            println!("NOT-REPRODUCED: expected class {}", r.class);
            0
        }
    }
}
