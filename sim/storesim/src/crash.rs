//! crashsim: crash-point and single-fault enumeration on top of the sequential executor.

use std::path::Path;

use serde::{Deserialize, Serialize};

use crate::image::Persist;
use crate::seq::Replay;

#[derive(Clone, Debug, Serialize, Deserialize)]
pub struct CrashPoint {
    /// Number of mutating calls that completed before the crash.
    pub k: u64,
    pub persist: Persist,
}

#[derive(Clone, Debug, Serialize, Deserialize)]
pub struct FaultPoint {
    pub at: u64,
    pub errno: i32,
}

pub fn replay(_r: &Replay, _path: &Path) -> i32 {
    eprintln!("HARNESS-ERROR: crash replay not built yet");
    2
}
