//! The sequential deterministic executor ("seqsim"): runs one history against the real store on
//! one OS thread, placing background work (flush, compaction, GC, verifier, reopen) as explicit
//! steps, and evaluates the enabled oracles after every operation.

use std::collections::BTreeMap;
use std::ops::Bound;
use std::panic::{catch_unwind, AssertUnwindSafe};
use std::path::{Path, PathBuf};

use arrrg::CommandLine;
use lsmtk::{KeyValueStore, LsmTree, LsmVerifier, LsmtkOptions, WriteBatch};
use sst::{Builder, Cursor, SstBuilder, SstOptions};

use crate::fsx;
use crate::hist::{value_for, Bnd, Cur, Ent, History, Mode, Op};
use crate::model::{self, Map, RefCursor};

//////////////////////////////////////////// Violation /////////////////////////////////////////////

#[derive(Clone, Debug, serde::Serialize, serde::Deserialize, PartialEq, Eq)]
pub struct Violation {
    pub property: String,
    /// Stable, coarse class used for minimisation and known-finding matching.
    pub class: String,
    pub op_index: usize,
    pub detail: String,
}

#[derive(Clone, Copy, Debug, Default)]
pub struct Oracles {
    pub c01: bool,
    pub c03: bool,
    pub c04: bool,
    pub c05: bool,
    pub c07: bool,
    pub c08: bool,
    pub c20: bool,
}

impl Oracles {
    pub fn only(p: &str) -> Self {
        let mut o = Oracles::default();
        match p {
            "C01" => o.c01 = true,
            "C03" => o.c03 = true,
            "C04" => o.c04 = true,
            "C05" => o.c05 = true,
            "C07" => o.c07 = true,
            "C08" => o.c08 = true,
            "C20" => o.c20 = true,
            _ => {}
        }
        o
    }

    pub fn enabled(&self, p: &str) -> bool {
        match p {
            "C01" => self.c01,
            "C03" => self.c03,
            "C04" => self.c04,
            "C05" => self.c05,
            "C07" => self.c07,
            "C08" => self.c08,
            "C20" => self.c20,
            _ => false,
        }
    }

    pub fn all() -> Self {
        Oracles {
            c01: true,
            c03: true,
            c04: true,
            c05: true,
            c07: true,
            c08: true,
            c20: true,
        }
    }
}

#[derive(Clone, Debug, Default)]
pub struct Probes(pub BTreeMap<String, u64>);

impl Probes {
    pub fn hit(&mut self, name: &str) {
        *self.0.entry(name.to_string()).or_insert(0) += 1;
    }
    pub fn add(&mut self, name: &str, n: u64) {
        *self.0.entry(name.to_string()).or_insert(0) += n;
    }
    pub fn merge(&mut self, other: &Probes) {
        for (k, v) in other.0.iter() {
            *self.0.entry(k.clone()).or_insert(0) += v;
        }
    }
    pub fn get(&self, name: &str) -> u64 {
        self.0.get(name).copied().unwrap_or(0)
    }
}

#[derive(Clone, Debug, PartialEq, Eq)]
pub enum OpResult {
    Ok,
    Err(String),
    Panic(String),
    NotRun,
}

pub struct RunCfg {
    pub root: PathBuf,
    pub oracles: Oracles,
    pub record_fs: bool,
    pub fault: Option<fsx::Fault>,
    /// Stop after the first violation of an enabled oracle.
    pub stop_at_first: bool,
    /// Operations after an injected fault fired: how many more to run.
    pub ops_after_fault: usize,
}

pub struct Outcome {
    pub violations: Vec<Violation>,
    pub op_results: Vec<OpResult>,
    pub probes: Probes,
    pub trace: Vec<fsx::Ev>,
    /// Deterministic event log (no absolute paths, no clocks).
    pub log: Vec<String>,
    /// Tree shape signatures seen (for the distinct-states measure).
    pub shapes: Vec<String>,
    pub fault_fired: Option<String>,
    /// Index of the op during which the injected fault fired.
    pub fault_op: Option<usize>,
    pub steps: u64,
}

//////////////////////////////////////////// panic capture /////////////////////////////////////////

thread_local! {
    static LAST_PANIC: std::cell::RefCell<Option<String>> = const { std::cell::RefCell::new(None) };
    static QUIET: std::cell::Cell<bool> = const { std::cell::Cell::new(false) };
}

pub fn install_panic_hook() {
    let default = std::panic::take_hook();
    std::panic::set_hook(Box::new(move |info| {
        let msg = if let Some(s) = info.payload().downcast_ref::<&str>() {
            s.to_string()
        } else if let Some(s) = info.payload().downcast_ref::<String>() {
            s.clone()
        } else {
            "<non-string panic>".to_string()
        };
        let loc = info
            .location()
            .map(|l| {
                let f = l.file();
                let f = f.strip_prefix("/repo/").unwrap_or(f);
                format!("{}:{}", f, l.line())
            })
            .unwrap_or_default();
        let quiet = QUIET.with(|q| q.get());
        LAST_PANIC.with(|p| *p.borrow_mut() = Some(format!("{msg} @ {loc}")));
        if !quiet {
            default(info);
        }
    }));
}

pub fn quiet_panics(q: bool) {
    QUIET.with(|c| c.set(q));
}

pub fn take_panic() -> String {
    LAST_PANIC
        .with(|p| p.borrow_mut().take())
        .unwrap_or_else(|| "<unknown panic>".to_string())
}

/// A coarse, stable class for a panic message: strip numbers and addresses.
pub fn panic_class(msg: &str) -> String {
    // collapse long hex strings (digests) first
    let mut collapsed = String::new();
    let chars: Vec<char> = msg.chars().collect();
    let mut i = 0;
    while i < chars.len() {
        let mut j = i;
        while j < chars.len() && chars[j].is_ascii_hexdigit() {
            j += 1;
        }
        if j - i >= 16 {
            collapsed.push_str("<hex>");
            i = j;
        } else {
            collapsed.push(chars[i]);
            i += 1;
        }
    }
    let msg = &collapsed;
    let mut out = String::new();
    let mut last_hash = false;
    for c in msg.chars().take(160) {
        if c.is_ascii_digit() {
            if !last_hash {
                out.push('#');
                last_hash = true;
            }
        } else {
            out.push(c);
            last_hash = false;
        }
    }
    out
}

/// Remove run-specific scratch paths (they differ between workers) from a message.
pub fn scrub(msg: &str) -> String {
    let base = crate::util::scratch_base().to_string_lossy().to_string();
    let mut out = String::new();
    let mut rest = msg;
    while let Some(pos) = rest.find(&base) {
        out.push_str(&rest[..pos]);
        out.push_str("<root>");
        let mut tail = &rest[pos + base.len()..];
        // skip "/w<digits>/<name>"
        for _ in 0..2 {
            if let Some(t) = tail.strip_prefix('/') {
                let end = t
                    .find(|c: char| !(c.is_ascii_alphanumeric() || c == '-' || c == '_'))
                    .unwrap_or(t.len());
                tail = &t[end..];
            }
        }
        rest = tail;
    }
    out.push_str(rest);
    out
}

pub fn err_class(err: &str) -> String {
    if err.starts_with("VERIFY-REMOVED-TWICE") {
        return "verifier-needs-file-it-already-unlinked:digest-removed-by-two-transactions".to_string();
    }
    let err = &scrub(err);
    // SError display is multi-line; keep code-ish words only.
    let flat: String = err
        .chars()
        .map(|c| if c == '\n' { ' ' } else { c })
        .take(200)
        .collect();
    panic_class(&flat)
}

//////////////////////////////////////////// store wrapper /////////////////////////////////////////

pub enum Store {
    Kvs(Box<KeyValueStore>),
    Tree(Box<LsmTree>),
}

impl Store {
    pub fn tree(&self) -> &LsmTree {
        match self {
            Store::Kvs(k) => k.verif_tree(),
            Store::Tree(t) => t,
        }
    }

    pub fn load(&self, key: &[u8]) -> Result<(Option<Vec<u8>>, bool), String> {
        let mut tomb = false;
        let r = match self {
            Store::Kvs(k) => k.load(key, &mut tomb),
            Store::Tree(t) => t.load(key, &mut tomb),
        };
        r.map(|v| (v, tomb)).map_err(|e| format!("{e}"))
    }

    pub fn scan<'a>(
        &'a self,
        lo: &'a Bound<Vec<u8>>,
        hi: &'a Bound<Vec<u8>>,
    ) -> Result<Box<dyn Cursor + 'a>, String> {
        match self {
            Store::Kvs(k) => k
                .range_scan(lo, hi)
                .map(|c| Box::new(c) as Box<dyn Cursor>)
                .map_err(|e| format!("{e}")),
            Store::Tree(t) => t
                .range_scan(lo, hi)
                .map(|c| Box::new(c) as Box<dyn Cursor>)
                .map_err(|e| format!("{e}")),
        }
    }
}

pub fn to_bound(b: &Bnd) -> Bound<Vec<u8>> {
    match b {
        Bnd::Unb => Bound::Unbounded,
        Bnd::Inc(k) => Bound::Included(k.0.clone()),
        Bnd::Exc(k) => Bound::Excluded(k.0.clone()),
    }
}

pub fn build_options(h: &History, root: &Path) -> LsmtkOptions {
    let mut args: Vec<String> = Vec::new();
    for (k, v) in h.opts.iter() {
        args.push(k.clone());
        args.push(v.clone());
    }
    args.push("--path".to_string());
    args.push(root.to_string_lossy().to_string());
    let refs: Vec<&str> = args.iter().map(|s| s.as_str()).collect();
    let (opts, free) = LsmtkOptions::from_arguments_relaxed("storesim", &refs);
    assert!(free.is_empty(), "free args: {free:?}");
    opts
}

pub fn open_store(h: &History, root: &Path) -> Result<Store, String> {
    let opts = build_options(h, root);
    match h.mode {
        Mode::Kvs => KeyValueStore::open(opts)
            .map(|k| Store::Kvs(Box::new(k)))
            .map_err(|e| format!("{e}")),
        Mode::Tree => LsmTree::open(opts)
            .map(|t| Store::Tree(Box::new(t)))
            .map_err(|e| format!("{e}")),
    }
}

struct Held {
    // Field order matters: the cursor is dropped before the bounds it may name in its type.
    cursor: Box<dyn Cursor>,
    #[allow(dead_code)]
    lo: Box<Bound<Vec<u8>>>,
    #[allow(dead_code)]
    hi: Box<Bound<Vec<u8>>>,
    /// Listing produced by a twin cursor drained when the scan was opened.
    reference: Vec<(Vec<u8>, Vec<u8>)>,
    /// Reference position mirrored by the held cursor, None until first positioned.
    refcur: RefCursor,
    opened_at: usize,
    events_since_open: u32,
}

//////////////////////////////////////////////// Exec //////////////////////////////////////////////

pub struct Exec<'h> {
    pub h: &'h History,
    pub root: PathBuf,
    pub store: Option<Store>,
    held: Vec<Option<Held>>,
    pub model: Map,
    pub probes: Probes,
    pub oracles: Oracles,
    pub violations: Vec<Violation>,
    pub log: Vec<String>,
    pub shapes: Vec<String>,
    pub next_ts: u64,
    pub cur_op: usize,
    pub steps: u64,
    pub c04: crate::books::Books,
    pub c08: crate::files::FileWatch,
    /// Diagnosis aid: the first operation after which some level >= 1 held two files with
    /// overlapping key ranges (which breaks the per-level binary search), and that op's kind.
    pub level_overlap: Option<(usize, &'static str, String)>,
    /// Full multi-version dumps of SSTs by digest (files are immutable).
    pub dump_cache: std::collections::HashMap<String, Vec<crate::conserve::Entry>>,
    /// rows of each ingest, by operation index (for Op::Reingest)
    pub ingested_rows: std::collections::HashMap<usize, Vec<(Vec<u8>, u64, Option<Vec<u8>>)>>,
}

pub const NUM_LEVELS: usize = lsmtk::NUM_LEVELS;

fn drain_forward(c: &mut dyn Cursor) -> Result<Vec<(Vec<u8>, Vec<u8>)>, String> {
    let mut out = Vec::new();
    c.seek_to_first().map_err(|e| format!("{e}"))?;
    loop {
        c.next().map_err(|e| format!("{e}"))?;
        match c.key_value() {
            Some(kv) => {
                out.push((kv.key.to_vec(), kv.value.map(|v| v.to_vec()).unwrap_or_default()));
                if kv.value.is_none() {
                    // a scan must never surface a tombstone; encode it so comparison fails loudly
                    let last = out.last_mut().unwrap();
                    last.1 = b"<TOMBSTONE>".to_vec();
                }
            }
            None => break,
        }
        if out.len() > 10_000 {
            return Err("scan did not terminate".into());
        }
    }
    Ok(out)
}

pub fn fmt_key(k: &[u8]) -> String {
    let printable = k.iter().all(|b| b.is_ascii_graphic());
    if printable && !k.is_empty() {
        format!("'{}'", String::from_utf8_lossy(k))
    } else {
        format!("x{}", crate::hist::hexbytes::to_hex(k))
    }
}

pub fn fmt_val(v: &Option<Vec<u8>>) -> String {
    match v {
        None => "None".to_string(),
        Some(v) => {
            let head: Vec<u8> = v.iter().take(10).copied().collect();
            format!("'{}'({}B)", String::from_utf8_lossy(&head), v.len())
        }
    }
}

impl<'h> Exec<'h> {
    pub fn new(h: &'h History, root: &Path, oracles: Oracles) -> Self {
        Self {
            h,
            root: root.to_path_buf(),
            store: None,
            held: vec![None, None, None],
            model: Map::new(),
            probes: Probes::default(),
            oracles,
            violations: Vec::new(),
            log: Vec::new(),
            shapes: Vec::new(),
            next_ts: 0,
            cur_op: 0,
            steps: 0,
            c04: crate::books::Books::default(),
            c08: crate::files::FileWatch::default(),
            level_overlap: None,
            dump_cache: std::collections::HashMap::new(),
            ingested_rows: std::collections::HashMap::new(),
        }
    }

    /// Some level >= 1 holds two files whose key ranges overlap in more than a shared boundary.
    pub fn find_level_overlap(&self) -> Option<String> {
        let store = self.store.as_ref()?;
        let levels = store.tree().verif_levels();
        for (li, l) in levels.iter().enumerate().skip(1) {
            let mut files: Vec<_> = l.iter().collect();
            files.sort_by(|a, b| a.1.cmp(&b.1).then(a.2.cmp(&b.2)));
            for w in files.windows(2) {
                if w[1].1 < w[0].2 {
                    return Some(format!(
                        "L{li}: {}[{}..{}]ts{}..{} overlaps {}[{}..{}]ts{}..{}",
                        &w[0].0.hexdigest()[..8],
                        fmt_key(&w[0].1),
                        fmt_key(&w[0].2),
                        w[0].3,
                        w[0].4,
                        &w[1].0.hexdigest()[..8],
                        fmt_key(&w[1].1),
                        fmt_key(&w[1].2),
                        w[1].3,
                        w[1].4
                    ));
                }
            }
        }
        None
    }

    /// One line per level for diagnostics.
    pub fn dump_levels(&self) -> String {
        let Some(store) = self.store.as_ref() else { return "<closed>".into() };
        let mut out = String::new();
        for (li, l) in store.tree().verif_levels().iter().enumerate() {
            if l.is_empty() {
                continue;
            }
            out += &format!("  L{li}:");
            for f in l.iter() {
                out += &format!(" {}[{}..{}]ts{}..{}", &f.0.hexdigest()[..8], fmt_key(&f.1), fmt_key(&f.2), f.3, f.4);
            }
            out += "\n";
        }
        out
    }

    /// The signature of the known recovery defect F-C01-1 on a store that has just been opened:
    /// (1) some level holds two files whose key ranges touch and whose timestamp ranges
    /// interleave (for such a pair the file metadata cannot say which is newer), and (2) a point
    /// lookup through the tree disagrees with the newest version present in the tree's own files.
    /// Both are computed from the recovered tree alone.  A recovery that misplaces files whose
    /// timestamp ranges do *not* interleave is not covered by this signature.
    pub fn recovery_misorder_signature(&mut self) -> Option<String> {
        let levels = self.store.as_ref()?.tree().verif_levels();
        let mut pair = None;
        'outer: for (li, l) in levels.iter().enumerate() {
            for a in 0..l.len() {
                for b in a + 1..l.len() {
                    let (fa, fb) = (&l[a], &l[b]);
                    let touch = fa.1 <= fb.2 && fb.1 <= fa.2;
                    let interleaved = fa.3 <= fb.4 && fb.3 <= fa.4;
                    if touch && interleaved {
                        pair = Some(format!(
                            "L{li} holds {}[{}..{}]ts{}..{} and {}[{}..{}]ts{}..{}",
                            &fa.0.hexdigest()[..8], fmt_key(&fa.1), fmt_key(&fa.2), fa.3, fa.4,
                            &fb.0.hexdigest()[..8], fmt_key(&fb.1), fmt_key(&fb.2), fb.3, fb.4
                        ));
                        break 'outer;
                    }
                }
            }
        }
        let pair = pair?;
        let snap = crate::conserve::snapshot(self).ok()?;
        let mut newest: std::collections::BTreeMap<Vec<u8>, (u64, Option<Vec<u8>>)> = std::collections::BTreeMap::new();
        for f in snap.files.values() {
            for (k, ts, v) in f.entries.iter() {
                match newest.get(k) {
                    Some((t, _)) if *t >= *ts => {}
                    _ => {
                        newest.insert(k.clone(), (*ts, v.clone()));
                    }
                }
            }
        }
        let tree = self.store.as_ref()?.tree();
        for (k, (ts, v)) in newest.iter() {
            let mut tomb = false;
            if let Ok(got) = tree.load(k, &mut tomb) {
                if got != *v {
                    return Some(format!(
                        "{pair}; lookup of {} returns {} but the newest version in the tree's files is @{ts} {}",
                        fmt_key(k),
                        fmt_val(&got),
                        fmt_val(v)
                    ));
                }
            }
        }
        None
    }

    pub fn violate(&mut self, property: &str, class: impl Into<String>, detail: impl Into<String>) {
        let mut class: String = class.into();
        let mut detail: String = detail.into();
        // A tree whose levels were misordered (files overlapping within a level >= 1, or a newer
        // version beneath an older one) also makes compaction select and merge the wrong files,
        // so C05's before/after comparison of a compaction inherits the diagnosis.
        if property == "C01" || property == "C03" || property == "C05" || (property == "C08" && class.starts_with("contents-changed")) {
            if let Some((op, kind, what)) = self.level_overlap.as_ref() {
                class = format!("misordered-levels-from-{kind}:{class}");
                detail = format!("{detail} [file order within a level unsound since op {op} ({kind}): {what}]");
            }
        }
        if self
            .violations
            .iter()
            .any(|v| v.property == property && v.class == class)
        {
            return;
        }
        self.violations.push(Violation {
            property: property.to_string(),
            class,
            op_index: self.cur_op,
            detail,
        });
    }

    fn drop_held(&mut self) {
        for h in self.held.iter_mut() {
            *h = None;
        }
        self.c08.unpin_all();
    }

    pub fn close(&mut self) {
        self.drop_held();
        self.store = None;
    }

    pub fn open(&mut self) -> Result<(), String> {
        self.close();
        let s = open_store(self.h, &self.root)?;
        self.store = Some(s);
        Ok(())
    }

    fn kvs(&self) -> Option<&KeyValueStore> {
        match self.store.as_ref() {
            Some(Store::Kvs(k)) => Some(k),
            _ => None,
        }
    }

    /// One iteration of the real compaction loop.  Returns Ok(true) iff a compaction ran.
    /// One unit of compaction work with the C05 before/after comparison around it.
    fn compact_op(&mut self) -> Result<bool, String> {
        let pre = if self.oracles.c05 {
            Some(crate::conserve::snapshot(self)?)
        } else {
            None
        };
        let did = self.compact_step()?;
        if did {
            self.probes.hit("compactions");
            self.note_store_moved();
            if let Some(pre) = pre {
                crate::conserve::check_after(self, pre)?;
            }
        } else {
            self.probes.hit("compact_idle");
        }
        Ok(did)
    }

    pub fn compact_step(&mut self) -> Result<bool, String> {
        let store = self.store.as_ref().ok_or("store closed")?;
        let tree = store.tree();
        let ctl = tree.verif();
        let before = ctl.work_done();
        ctl.set_return_when_idle(true);
        ctl.set_budget(1);
        let res = tree.compaction_thread();
        ctl.set_budget(-1);
        ctl.set_return_when_idle(false);
        self.steps += 1;
        res.map_err(|e| format!("{e}"))?;
        Ok(tree.verif().work_done() > before)
    }

    /// Perform every triggered memtable flush.  Models "the flush thread got to run".
    pub fn flush_step(&mut self) -> Result<(), String> {
        let (idle, stall) = {
            let kvs = match self.kvs() {
                Some(k) => k,
                None => return Ok(()),
            };
            (
                kvs.verif_flush_idle(),
                kvs.verif_tree().verif_would_stall_ingest(),
            )
        };
        if idle {
            self.probes.hit("flush_noop");
            return Ok(());
        }
        if stall {
            // The flush thread would block in ingest until compaction relieves level 0.  With a
            // compaction thread running, this is the sequence the threaded system executes.
            self.probes.hit("stall_threshold_reached");
            let mut guard = 0;
            loop {
                let did = self.compact_step()?;
                let still = self
                    .store
                    .as_ref()
                    .map(|s| s.tree().verif_would_stall_ingest())
                    .unwrap_or(false);
                if !still {
                    break;
                }
                guard += 1;
                if !did || guard > stall_guard_limit() {
                    let ongoing = self
                        .store
                        .as_ref()
                        .map(|s| s.tree().verif_ongoing_compactions())
                        .unwrap_or(0);
                    let shape = self.shape();
                    self.probes.hit("stalled_nothing_selectable");
                    if self.oracles.c20 {
                        let class = self.stall_class();
                        self.violate(
                            "C20",
                            class,
                            format!(
                                "ingest would stall, compaction selects nothing, ongoing={ongoing}, shape={shape}"
                            ),
                        );
                    }
                    return Err("WOULD-DEADLOCK".to_string());
                }
            }
        }
        let kvs = self.kvs().unwrap();
        let ctl = kvs.verif();
        ctl.set_return_when_idle(true);
        let res = kvs.memtable_thread();
        ctl.set_return_when_idle(false);
        self.steps += 1;
        self.probes.hit("flushes");
        res.map_err(|e| format!("{e}"))
    }

    /// Class of a "level 0 is full and nothing is selectable" state, naming the limits in force.
    fn stall_class(&self) -> String {
        let mcf = self.h.opt("--max-compaction-files").unwrap_or("64");
        let mof = self.h.opt("--max-open-files").unwrap_or("default");
        let mcb = self.h.opt("--max-compaction-bytes").unwrap_or("default");
        let l0 = self
            .store
            .as_ref()
            .map(|s| s.tree().verif_levels()[0].len())
            .unwrap_or(0);
        let mcf_n: usize = mcf.parse().unwrap_or(64);
        let stall: usize = self
            .h
            .opt("--l0-write-stall-threshold-files")
            .and_then(|s| s.parse().ok())
            .unwrap_or(12);
        let mandatory: usize = self
            .h
            .opt("--l0-mandatory-compaction-threshold-files")
            .and_then(|s| s.parse().ok())
            .unwrap_or(4);
        let byte_thresholds = self.h.opt("--l0-write-stall-threshold-bytes").is_some()
            || self.h.opt("--l0-mandatory-compaction-threshold-bytes").is_some();
        // files the level-0 compaction needs: all of level 0 plus what it overlaps in level 1,
        // the key range growing with every level-1 table it takes in (as compute_bounds does)
        let needed = self
            .store
            .as_ref()
            .map(|s| {
                let levels = s.tree().verif_levels();
                let lo = levels[0].iter().map(|f| f.1.clone()).min();
                let hi = levels[0].iter().map(|f| f.2.clone()).max();
                match (lo, hi) {
                    (Some(mut lo), Some(mut hi)) => loop {
                        let mut n = 0;
                        let (mut lo2, mut hi2) = (lo.clone(), hi.clone());
                        for f in levels[1].iter().filter(|f| f.1 <= hi && lo <= f.2) {
                            n += 1;
                            lo2 = lo2.min(f.1.clone());
                            hi2 = hi2.max(f.2.clone());
                        }
                        if lo2 == lo && hi2 == hi {
                            break levels[0].len() + n;
                        }
                        lo = lo2;
                        hi = hi2;
                    },
                    _ => 0,
                }
            })
            .unwrap_or(0);
        let _ = l0;
        let mof_n: Option<usize> = mof.parse().ok();
        let relation = if mof_n.map(|m| needed >= m).unwrap_or(false) {
            // `may_choose_compaction` refuses inputs + ongoing >= max_open_files (finding F-C20-4)
            "relieving-compaction-needs-at-least-max-open-files"
        } else if mcf_n < 2 {
            "no-merging-compaction-permitted"
        } else if needed > mcf_n {
            "relieving-compaction-needs-more-files-than-max-compaction-files"
        } else if stall < mandatory {
            "stall-threshold-below-mandatory-threshold"
        } else if byte_thresholds {
            "byte-thresholds-in-force"
        } else {
            "thresholds-ordered"
        };
        format!("stalled-nothing-selectable:{relation}:max-open-files={mof}:max-compaction-bytes={mcb}")
    }

    /// A compact per-level signature of the tree shape.
    pub fn shape(&self) -> String {
        let store = match self.store.as_ref() {
            Some(s) => s,
            None => return "closed".to_string(),
        };
        let levels = store.tree().verif_levels();
        let mut s = String::new();
        for (i, l) in levels.iter().enumerate() {
            if !l.is_empty() {
                s.push_str(&format!("L{}:{} ", i, l.len()));
            }
        }
        // L0 overlap pattern: number of overlapping pairs
        let l0 = &levels[0];
        let mut overlaps = 0;
        for i in 0..l0.len() {
            for j in i + 1..l0.len() {
                if l0[i].1 <= l0[j].2 && l0[j].1 <= l0[i].2 {
                    overlaps += 1;
                }
            }
        }
        s.push_str(&format!("ov{overlaps}"));
        s
    }

    /// The table of an earlier ingest once more, byte for byte (same digest), unless a table with
    /// that digest is live at the moment.
    fn reingest(&mut self, i: usize, of: usize) -> Result<(), String> {
        let rows = match self.ingested_rows.get(&of) {
            Some(rows) => rows.clone(),
            None => return Ok(()),
        };
        let path = self.root.join("tmp").join(format!("reingest-{i}.sst"));
        let _ = std::fs::remove_file(&path);
        let mut b = SstBuilder::new(SstOptions::default(), &path).map_err(|e| format!("{e}"))?;
        for (k, ts, v) in rows.iter() {
            match v {
                Some(v) => b.put(k, *ts, v).map_err(|e| format!("{e}"))?,
                None => b.del(k, *ts).map_err(|e| format!("{e}"))?,
            }
        }
        let sealed = b.seal().map_err(|e| format!("{e}"))?;
        let digest = setsum::Setsum::from_digest(sealed.metadata().map_err(|e| format!("{e}"))?.setsum).hexdigest();
        drop(sealed);
        let stalled = self.store.as_ref().map(|s| s.tree().verif_would_stall_ingest()).unwrap_or(true);
        // Only data the tree no longer holds anywhere comes back (old versions arriving late); a
        // second copy of entries that are still live would be a different input class.
        let still_present = match crate::conserve::snapshot(self) {
            Ok(snap) => snap.files.values().any(|f| f.entries.iter().any(|(k, ts, _)| rows.iter().any(|(rk, rts, _)| rk == k && rts == ts))),
            Err(_) => true,
        };
        let still_present = still_present && std::env::var("STORESIM_REINGEST_DUPLICATES").is_err();
        if stalled || still_present || self.root.join("sst").join(format!("{digest}.sst")).exists() {
            let _ = std::fs::remove_file(&path);
            self.probes.hit("reingest_skipped");
            return Ok(());
        }
        let tree = match self.store.as_ref() {
            Some(Store::Tree(t)) => t,
            _ => return Ok(()),
        };
        tree.ingest(&path).map_err(|e| format!("{e}"))?;
        self.probes.hit("tables_ingested_again_with_an_earlier_digest");
        let _ = std::fs::remove_file(&path);
        Ok(())
    }

    fn ingest(&mut self, i: usize, ents: &[Ent]) -> Result<(), String> {
        // Build a table with the public builder; timestamps are fresh and increasing.
        let path = self.root.join("tmp").join(format!("ingest-{i}.sst"));
        let _ = std::fs::remove_file(&path);
        let mut rows: Vec<(Vec<u8>, u64, Option<Vec<u8>>)> = Vec::new();
        for (j, (k, v)) in ents.iter().enumerate() {
            self.next_ts += 1;
            rows.push((
                self.h.keys[*k].0.clone(),
                self.next_ts,
                v.map(|vlen| value_for(i, j, vlen)),
            ));
        }
        rows.sort_by(|a, b| a.0.cmp(&b.0).then(b.1.cmp(&a.1)));
        self.ingested_rows.insert(i, rows.clone());
        let mut b = SstBuilder::new(SstOptions::default(), &path).map_err(|e| format!("{e}"))?;
        for (k, ts, v) in rows.iter() {
            match v {
                Some(v) => b.put(k, *ts, v).map_err(|e| format!("{e}"))?,
                None => b.del(k, *ts).map_err(|e| format!("{e}"))?,
            }
        }
        drop(b.seal().map_err(|e| format!("{e}"))?);
        // An ingest stalls while level 0 is full; let the compaction thread run first.
        let mut guard = 0;
        while self
            .store
            .as_ref()
            .map(|s| s.tree().verif_would_stall_ingest())
            .unwrap_or(false)
        {
            self.probes.hit("stall_threshold_reached");
            let did = self.compact_step()?;
            guard += 1;
            let still = self
                .store
                .as_ref()
                .map(|s| s.tree().verif_would_stall_ingest())
                .unwrap_or(false);
            if still && (!did || guard > stall_guard_limit()) {
                let shape = self.shape();
                self.probes.hit("stalled_nothing_selectable");
                if self.oracles.c20 {
                    let class = self.stall_class();
                    self.violate(
                        "C20",
                        class,
                        format!("ingest would stall, compaction selects nothing, shape={shape}"),
                    );
                }
                let _ = std::fs::remove_file(&path);
                return Err("WOULD-DEADLOCK".to_string());
            }
        }
        let res = match self.store.as_ref() {
            Some(Store::Tree(t)) => t.ingest(&path).map_err(|e| format!("{e}")),
            _ => Err("ingest needs tree mode".to_string()),
        };
        let _ = std::fs::remove_file(&path);
        res
    }

    fn run_prog_against(
        &mut self,
        property: &str,
        cursor: &mut dyn Cursor,
        refcur: &mut RefCursor,
        prog: &[Cur],
        what: &str,
    ) -> bool {
        // Transition signature: the most recent absolute positioning call, the call before this
        // one, this call, and where the reference stood before it.  It names the specific call
        // sequence that fails.
        let ck = |c: &Cur| match c {
            Cur::First => "first",
            Cur::Last => "last",
            Cur::Seek(_) => "seek",
            Cur::Next => "next",
            Cur::Prev => "prev",
        };
        let mut last_abs = "open";
        let mut prev_call = "open";
        let what_owned = what.to_string();
        for (pi, c) in prog.iter().enumerate() {
            let ref_state = if refcur.idx < 0 {
                "start"
            } else if refcur.idx as usize >= refcur.items.len() {
                "end"
            } else {
                "mid"
            };
            let sig = format!("{what_owned}:{last_abs}/{prev_call}>{}@{ref_state}", ck(c));
            let what = sig.as_str();
            if matches!(c, Cur::First | Cur::Last | Cur::Seek(_)) {
                last_abs = ck(c);
            }
            prev_call = ck(c);
            let r = match c {
                Cur::First => cursor.seek_to_first(),
                Cur::Last => cursor.seek_to_last(),
                Cur::Seek(k) => cursor.seek(&k.0),
                Cur::Next => cursor.next(),
                Cur::Prev => cursor.prev(),
            };
            if let Err(e) = r {
                let e = format!("{e}");
                if e.contains("too-many-open-files") {
                    // the configured max_open_files was reached: explicit resource-limit error
                    self.probes.hit("cursor_use_ended_at_max_open_files_limit");
                    return false;
                }
                self.violate(
                    property,
                    format!("{what}:error:{}", err_class(&e)),
                    format!("cursor call #{pi} {c:?} returned error: {e}"),
                );
                return false;
            }
            refcur.step(c);
            let got = cursor
                .key_value()
                .map(|kv| (kv.key.to_vec(), kv.value.map(|v| v.to_vec())));
            let want = refcur.current().cloned();
            let same = match (&got, &want) {
                (None, None) => true,
                (Some((gk, Some(gv))), Some((wk, wv))) => gk == wk && gv == wv,
                _ => false,
            };
            if !same {
                let class = match (&got, &want) {
                    (Some((gk, _)), _)
                        if self.model.get(gk).map(|v| v.is_none()).unwrap_or(false)
                            && property == "C03" =>
                    {
                        format!("{what}:returned-deleted-key")
                    }
                    (Some((_, None)), _) => format!("{what}:tombstone-surfaced"),
                    (None, Some(_)) => format!("{what}:missing-key"),
                    (Some(_), None) => format!("{what}:extra-key"),
                    _ => format!("{what}:wrong-entry"),
                };
                let g = got
                    .as_ref()
                    .map(|(k, v)| format!("{}={}", fmt_key(k), fmt_val(v)))
                    .unwrap_or("None".into());
                let w = want
                    .as_ref()
                    .map(|(k, v)| format!("{}={}", fmt_key(k), fmt_val(&Some(v.clone()))))
                    .unwrap_or("None".into());
                self.violate(
                    property,
                    class,
                    format!("after cursor call #{pi} {c:?}: got {g}, reference {w}"),
                );
                return false;
            }
        }
        true
    }

    /// Compare a drained listing with the model's; returns a symptom or None.
    fn listing_symptom(
        &self,
        got: &[(Vec<u8>, Vec<u8>)],
        want: &[(Vec<u8>, Vec<u8>)],
    ) -> Option<(String, String)> {
        if got == want {
            return None;
        }
        for (k, v) in got.iter() {
            if v.as_slice() == b"<TOMBSTONE>" {
                return Some(("tombstone-surfaced".into(), format!("key {}", fmt_key(k))));
            }
        }
        for w in got.windows(2) {
            if w[0].0 >= w[1].0 {
                return Some((
                    "not-strictly-ordered".into(),
                    format!("{} then {}", fmt_key(&w[0].0), fmt_key(&w[1].0)),
                ));
            }
        }
        for (k, v) in got.iter() {
            match self.model.get(k) {
                Some(None) => {
                    return Some(("returned-deleted-key".into(), format!("key {}", fmt_key(k))))
                }
                None => {
                    return Some(("returned-unwritten-key".into(), format!("key {}", fmt_key(k))))
                }
                Some(Some(mv)) => {
                    if !want.iter().any(|(wk, _)| wk == k) {
                        return Some(("returned-key-out-of-bounds".into(), format!("key {}", fmt_key(k))));
                    }
                    if mv != v {
                        return Some((
                            "wrong-value".into(),
                            format!(
                                "key {}: got {} model {}",
                                fmt_key(k),
                                fmt_val(&Some(v.clone())),
                                fmt_val(&Some(mv.clone()))
                            ),
                        ));
                    }
                }
            }
        }
        for (k, _) in want.iter() {
            if !got.iter().any(|(gk, _)| gk == k) {
                return Some(("missing-key".into(), format!("key {}", fmt_key(k))));
            }
        }
        Some(("listing-differs".into(), format!("{} vs {} entries", got.len(), want.len())))
    }

    fn do_scan(&mut self, lo: &Bnd, hi: &Bnd, prog: &[Cur]) -> Result<(), String> {
        let lob = to_bound(lo);
        let hib = to_bound(hi);
        // SAFETY: every cursor is dropped inside this function, before the store can be.
        let store: &Store = unsafe { &*(self.store.as_ref().ok_or("store closed")? as *const Store) };
        self.probes.hit("scans");
        if !self.oracles.c03 {
            // still exercise the programme so that errors/panics surface
            let mut cursor = store.scan(&lob, &hib)?;
            let cur: &mut dyn Cursor = cursor.as_mut();
            for c in prog.iter() {
                let r = match c {
                    Cur::First => cur.seek_to_first(),
                    Cur::Last => cur.seek_to_last(),
                    Cur::Seek(k) => cur.seek(&k.0),
                    Cur::Next => cur.next(),
                    Cur::Prev => cur.prev(),
                };
                r.map_err(|e| format!("{e}"))?;
            }
            return Ok(());
        }
        let items = model::live_listing(&self.model, lo, hi);
        if items.is_empty() {
            self.probes.hit("scan_empty_range");
        }
        // History stratum: does a tombstone (a deleted key) lie inside the bounds?
        let has_del = self
            .model
            .iter()
            .any(|(k, v)| v.is_none() && model::in_bounds(k, lo, hi));
        let bk = |b: &Bnd| match b {
            Bnd::Unb => "u",
            Bnd::Inc(_) => "i",
            Bnd::Exc(_) => "e",
        };
        let tag = format!("{}:lo-{}:hi-{}", if has_del { "del" } else { "nodel" }, bk(lo), bk(hi));
        let tag = tag.as_str();
        if has_del {
            self.probes.hit("scan_over_deleted_key");
        }

        // (A) forward drain
        let mut fwd_listing: Option<Vec<(Vec<u8>, Vec<u8>)>> = None;
        {
            let mut cursor = store.scan(&lob, &hib)?;
            match drain_forward(cursor.as_mut()) {
                Ok(listing) => {
                    if let Some((sym, what)) = self.listing_symptom(&listing, &items) {
                        self.violate(
                            "C03",
                            format!("fwd:{sym}:{tag}"),
                            format!("forward drain of ({lo:?}, {hi:?}): {what}; got {} entries, model {}", listing.len(), items.len()),
                        );
                    }
                    fwd_listing = Some(listing);
                }
                Err(e) => self.violate(
                    "C03",
                    format!("fwd:error:{}:{tag}", err_class(&e)),
                    format!("forward drain failed: {e}"),
                ),
            }
        }
        // (B) backward drain
        {
            let mut cursor = store.scan(&lob, &hib)?;
            let cur: &mut dyn Cursor = cursor.as_mut();
            let mut listing = Vec::new();
            let mut err = None;
            if let Err(e) = cur.seek_to_last() {
                err = Some(format!("{e}"));
            }
            while err.is_none() {
                if let Err(e) = cur.prev() {
                    err = Some(format!("{e}"));
                    break;
                }
                match cur.key_value() {
                    Some(kv) => listing.push((
                        kv.key.to_vec(),
                        kv.value.map(|v| v.to_vec()).unwrap_or_else(|| b"<TOMBSTONE>".to_vec()),
                    )),
                    None => break,
                }
                if listing.len() > 10_000 {
                    err = Some("backward scan did not terminate".into());
                }
            }
            match err {
                Some(e) => self.violate(
                    "C03",
                    format!("bwd:error:{}:{tag}", err_class(&e)),
                    format!("backward drain failed: {e}"),
                ),
                None => {
                    listing.reverse();
                    if let Some((sym, what)) = self.listing_symptom(&listing, &items) {
                        self.violate(
                            "C03",
                            format!("bwd:{sym}:{tag}"),
                            format!("backward drain of ({lo:?}, {hi:?}): {what}; got {} entries, model {}", listing.len(), items.len()),
                        );
                    }
                }
            }
        }
        // (C) seek to every universe key and each seek target of the programme, then one next
        {
            let mut targets: Vec<Vec<u8>> = self.h.keys.iter().map(|k| k.0.clone()).collect();
            for c in prog.iter() {
                if let Cur::Seek(k) = c {
                    targets.push(k.0.clone());
                }
            }
            targets.sort();
            targets.dedup();
            let mut cursor = store.scan(&lob, &hib)?;
            let cur: &mut dyn Cursor = cursor.as_mut();
            'seeks: for t in targets.iter() {
                let idx = items.partition_point(|(k, _)| k.as_slice() < t.as_slice());
                for step in 0..2usize {
                    let r = if step == 0 { cur.seek(t) } else { cur.next() };
                    if let Err(e) = r {
                        let e = format!("{e}");
                        self.violate(
                            "C03",
                            format!("seek:error:{}:{tag}", err_class(&e)),
                            format!("seek {} step {step}: {e}", fmt_key(t)),
                        );
                        break 'seeks;
                    }
                    let want = items.get(idx + step).cloned();
                    let got = cur
                        .key_value()
                        .map(|kv| (kv.key.to_vec(), kv.value.map(|v| v.to_vec())));
                    let same = match (&got, &want) {
                        (None, None) => true,
                        (Some((gk, Some(gv))), Some((wk, wv))) => gk == wk && gv == wv,
                        _ => false,
                    };
                    if !same {
                        let sym = match (&got, &want) {
                            (Some((gk, _)), _) if self.model.get(gk).map(|v| v.is_none()).unwrap_or(false) => "returned-deleted-key",
                            (Some((_, None)), _) => "tombstone-surfaced",
                            (None, Some(_)) => "missing-key",
                            (Some(_), None) => "extra-key",
                            _ => "wrong-entry",
                        };
                        let what = if step == 0 { "seek" } else { "seek-next" };
                        self.violate(
                            "C03",
                            format!("{what}:{sym}:{tag}"),
                            format!(
                                "seek({}){}: got {:?}, model {:?}",
                                fmt_key(t),
                                if step == 1 { " then next" } else { "" },
                                got.as_ref().map(|(k, v)| format!("{}={}", fmt_key(k), fmt_val(v))),
                                want.as_ref().map(|(k, v)| format!("{}={}", fmt_key(k), fmt_val(&Some(v.clone())))),
                            ),
                        );
                        break 'seeks;
                    }
                }
            }
        }
        // (D) the seeded programme against the reference cursor
        {
            let fwd_only = prog.iter().all(|c| !matches!(c, Cur::Prev | Cur::Last));
            let bwd_only = prog.iter().all(|c| !matches!(c, Cur::Next | Cur::First | Cur::Seek(_)));
            let kind = if fwd_only {
                "prog-fwd"
            } else if bwd_only {
                "prog-bwd"
            } else {
                "prog-mixed"
            };
            let mut cursor = store.scan(&lob, &hib)?;
            let mut refcur = RefCursor::new(items.clone());
            let _ = kind;
            let b = if matches!((lo, hi), (Bnd::Unb, Bnd::Unb)) { "unbounded" } else { "bounded" };
            self.run_prog_against("C03", cursor.as_mut(), &mut refcur, prog, &format!("prog:{b}"));
        }
        // (E) agreement with point reads at the same moment, over the whole universe
        if let Some(listing) = fwd_listing {
            for hk in self.h.keys.iter() {
                let k = &hk.0;
                if !model::in_bounds(k, lo, hi) {
                    continue;
                }
                let (pv, _) = store.load(k)?;
                let sv = listing.iter().find(|(lk, _)| lk == k).map(|(_, v)| v.clone());
                if pv != sv {
                    let sym = if pv.is_none() { "scan-has-key-load-does-not" } else if sv.is_none() { "load-has-key-scan-does-not" } else { "values-differ" };
                    self.violate(
                        "C03",
                        format!("vs-load:{sym}:{tag}"),
                        format!("key {}: scan {} vs point read {}", fmt_key(k), fmt_val(&sv), fmt_val(&pv)),
                    );
                    break;
                }
            }
        }
        Ok(())
    }

    fn do_hold(&mut self, slot: usize, lo: &Bnd, hi: &Bnd) -> Result<(), String> {
        let lob = Box::new(to_bound(lo));
        let hib = Box::new(to_bound(hi));
        // SAFETY: held cursors are dropped in close() before the store is.
        let store: &'static Store =
            unsafe { &*(self.store.as_ref().ok_or("store closed")? as *const Store) };
        let lo_ref: &'static Bound<Vec<u8>> = unsafe { &*(lob.as_ref() as *const _) };
        let hi_ref: &'static Bound<Vec<u8>> = unsafe { &*(hib.as_ref() as *const _) };
        let cursor = store.scan(lo_ref, hi_ref)?;
        let mut twin = store.scan(lo_ref, hi_ref)?;
        let reference = drain_forward(twin.as_mut())?;
        drop(twin);
        self.probes.hit("holds_opened");
        let digests: std::collections::BTreeSet<String> = store
            .tree()
            .verif_levels()
            .iter()
            .flat_map(|l| l.iter().map(|f| f.0.hexdigest()))
            .collect();
        self.c08.pin(slot, digests);
        self.held[slot] = Some(Held {
            cursor,
            lo: lob,
            hi: hib,
            refcur: RefCursor::new(reference.clone()),
            reference,
            opened_at: self.cur_op,
            events_since_open: 0,
        });
        Ok(())
    }

    fn do_hold_use(&mut self, slot: usize, prog: &[Cur]) -> Result<(), String> {
        let mut held = match self.held[slot].take() {
            Some(h) => h,
            None => return Ok(()),
        };
        self.probes.hit("hold_uses");
        if held.events_since_open > 0 {
            self.probes.hit("hold_use_after_store_moved");
        }
        let mut refcur = held.refcur.clone();
        if !self.oracles.c07 && self.oracles.c08 {
            // C08 judges the files, not what the cursor returns, but the holder has to be a
            // reader that actually reads: it walks its programme and then runs off the end, as a
            // caller who keeps an exhausted cursor around would (seeded change C08-f).
            let c = held.cursor.as_mut();
            for call in prog.iter() {
                let _ = match call {
                    Cur::First => c.seek_to_first(),
                    Cur::Last => c.seek_to_last(),
                    Cur::Seek(k) => c.seek(&k.0),
                    Cur::Next => c.next(),
                    Cur::Prev => c.prev(),
                };
            }
            let _ = drain_forward(c);
            self.probes.hit("c08_held_cursor_walked_to_the_end");
        }
        // The first call of every programme positions the cursor, so the mirror is exact.
        let ok = if self.oracles.c07 {
            self.run_prog_against("C07", held.cursor.as_mut(), &mut refcur, prog, "held-cursor")
        } else {
            true
        };
        if ok && self.oracles.c07 {
            // Full forward drain must equal the twin's listing.
            match drain_forward(held.cursor.as_mut()) {
                Ok(listing) => {
                    if listing != held.reference {
                        let newer = listing.iter().any(|(k, v)| {
                            !held.reference.iter().any(|(rk, rv)| rk == k && rv == v)
                        });
                        let class = if newer {
                            "held-cursor-shows-later-write"
                        } else {
                            "held-cursor-lost-entries"
                        };
                        self.violate(
                            "C07",
                            class,
                            format!(
                                "cursor opened at op {} now lists {} entries, listed {} when opened",
                                held.opened_at,
                                listing.len(),
                                held.reference.len()
                            ),
                        );
                    }
                    refcur = RefCursor::new(held.reference.clone());
                    refcur.idx = held.reference.len() as isize;
                }
                Err(e) if e.contains("too-many-open-files") => {
                    self.probes.hit("cursor_use_ended_at_max_open_files_limit");
                }
                Err(e) => {
                    self.violate(
                        "C07",
                        format!("held-cursor-error:{}", err_class(&e)),
                        format!("cursor opened at op {}: {e}", held.opened_at),
                    );
                }
            }
        }
        held.refcur = refcur;
        self.held[slot] = Some(held);
        Ok(())
    }

    fn note_store_moved(&mut self) {
        for h in self.held.iter_mut().flatten() {
            h.events_since_open += 1;
        }
    }

    fn exec_op(&mut self, i: usize, op: &Op) -> Result<(), String> {
        match op {
            Op::Put { k, vlen } => {
                let key = self.h.keys[*k].0.clone();
                let v = value_for(i, 0, *vlen);
                let r = self
                    .kvs()
                    .ok_or("put needs kvs mode")?
                    .put(&key, &v)
                    .map_err(|e| format!("{e}"));
                self.note_store_moved();
                r
            }
            Op::Del { k } => {
                let key = self.h.keys[*k].0.clone();
                let r = self
                    .kvs()
                    .ok_or("del needs kvs mode")?
                    .del(&key)
                    .map_err(|e| format!("{e}"));
                self.note_store_moved();
                r
            }
            Op::Batch { ents } => {
                let mut wb = WriteBatch::with_capacity(ents.len());
                for (j, (k, v)) in ents.iter().enumerate() {
                    match v {
                        Some(vlen) => wb.put(&self.h.keys[*k].0, &value_for(i, j, *vlen)),
                        None => wb.del(&self.h.keys[*k].0),
                    }
                }
                let r = self
                    .kvs()
                    .ok_or("batch needs kvs mode")?
                    .write(wb)
                    .map_err(|e| format!("{e}"));
                self.note_store_moved();
                r
            }
            Op::Ingest { ents } => {
                let r = self.ingest(i, ents);
                self.note_store_moved();
                r
            }
            Op::Reingest { of } => {
                let r = self.reingest(i, *of);
                self.note_store_moved();
                r
            }
            Op::Get { k } => {
                let key = self.h.keys[*k].0.clone();
                let (got, _) = self.store.as_ref().ok_or("store closed")?.load(&key)?;
                let want = self.model.get(&key).cloned().flatten();
                if self.oracles.c01 && got != want {
                    self.violate(
                        "C01",
                        "get-wrong-value",
                        format!(
                            "get {} returned {}, model {}",
                            fmt_key(&key),
                            fmt_val(&got),
                            fmt_val(&want)
                        ),
                    );
                }
                Ok(())
            }
            Op::Scan { lo, hi, prog } => self.do_scan(lo, hi, prog),
            Op::Hold { slot, lo, hi } => self.do_hold(*slot, lo, hi),
            Op::HoldUse { slot, prog } => self.do_hold_use(*slot, prog),
            Op::HoldDrop { slot } => {
                self.held[*slot] = None;
                self.c08.unpin(*slot);
                Ok(())
            }
            Op::Flush => {
                let r = self.flush_step();
                self.note_store_moved();
                r
            }
            Op::Compact => self.compact_op().map(|_| ()),
            Op::CompactMany { n } => {
                self.probes.hit("compaction_long_turns");
                for _ in 0..*n {
                    if !self.compact_op()? {
                        break;
                    }
                }
                Ok(())
            }
            Op::Verify => {
                let opts = build_options(self.h, &self.root);
                let trace_from = fsx::trace_len();
                let mut v = LsmVerifier::open(opts).map_err(|e| format!("{e}"))?;
                let r = v.verify();
                drop(v);
                self.steps += 1;
                self.probes.hit("verifier_passes");
                if self.oracles.c08 {
                    crate::files::check_verifier_unlinks(self, trace_from);
                }
                self.note_store_moved();
                if self.oracles.c04 {
                    crate::books::check(self);
                    crate::books::manifest_verifier_accepts(self);
                }
                match r {
                    Ok(()) => Ok(()),
                    Err(e) => {
                        if lsmtk::error_code(&e) == Some(lsmtk::CODE_BACKOFF) {
                            self.probes.hit("verifier_backoff");
                            Ok(())
                        } else {
                            let msg = format!("{e}");
                            // Diagnosis: a NotFound on trash/<digest>.sst for a digest that two
                            // different transactions removed (a compaction re-created a file
                            // with the digest of one removed earlier).
                            if msg.contains("NotFound") {
                                if let Some(pos) = msg.find("/trash/") {
                                    let hex: String = msg[pos + 7..].chars().take(64).collect();
                                    let n = self.c04.removals.get(&hex).copied().unwrap_or(0);
                                    if n >= 2 {
                                        return Err(format!("VERIFY-REMOVED-TWICE: digest {hex} was removed by {n} transactions; {msg}"));
                                    }
                                }
                            }
                            Err(format!("VERIFY: {msg}"))
                        }
                    }
                }
            }
            Op::Reopen => {
                let before = self.shape();
                let levels_before = self.store.as_ref().map(|s| s.tree().verif_levels());
                self.close();
                self.open()?;
                self.probes.hit("reopens");
                let after = self.shape();
                if before != after {
                    self.probes.hit("reopen_changed_levels");
                }
                // Diagnosis aid (not an oracle): did recovery merge two key-touching files that
                // lived in different levels into one level >= 1?
                if let (Some(lb), None) = (levels_before, self.level_overlap.as_ref()) {
                    let mut level_of = std::collections::HashMap::new();
                    for (li, l) in lb.iter().enumerate() {
                        for f in l.iter() {
                            level_of.insert(f.0.hexdigest(), li);
                        }
                    }
                    let la = self.store.as_ref().unwrap().tree().verif_levels();
                    'outer: for (li, l) in la.iter().enumerate() {
                        for a in 0..l.len() {
                            for b in a + 1..l.len() {
                                let (fa, fb) = (&l[a], &l[b]);
                                let touch = fa.1 <= fb.2 && fb.1 <= fa.2;
                                let interleaved = fa.3 <= fb.4 && fb.3 <= fa.4;
                                let (oa, ob) = (
                                    level_of.get(&fa.0.hexdigest()),
                                    level_of.get(&fb.0.hexdigest()),
                                );
                                let lost_order = if li == 0 {
                                    !(oa == Some(&0) && ob == Some(&0))
                                } else {
                                    oa != ob
                                };
                                if touch && interleaved && oa.is_some() && ob.is_some() && lost_order {
                                    self.level_overlap = Some((
                                        i,
                                        "reopen",
                                        format!(
                                            "recovery put {}[{}..{}]ts{}..{} (was L{}) and {}[{}..{}]ts{}..{} (was L{}) together in L{li}",
                                            &fa.0.hexdigest()[..8], fmt_key(&fa.1), fmt_key(&fa.2), fa.3, fa.4, oa.unwrap(),
                                            &fb.0.hexdigest()[..8], fmt_key(&fb.1), fmt_key(&fb.2), fb.3, fb.4, ob.unwrap(),
                                        ),
                                    ));
                                    self.probes.hit("level_overlap_state_reached");
                                    break 'outer;
                                }
                            }
                        }
                    }
                }
                Ok(())
            }
        }
    }

    pub fn debug_exec(&mut self, i: usize, op: &Op) -> Result<(), String> {
        let r = self.exec_op(i, op);
        if r.is_ok() {
            model::apply_op(&mut self.model, self.h, i, op);
        }
        r
    }

    pub fn debug_exec_no_model(&mut self, i: usize, op: &Op) -> Result<(), String> {
        self.exec_op(i, op)
    }

    fn property_for_error(op: &Op, err: &str) -> &'static str {
        if err.starts_with("VERIFY") {
            return "C04";
        }
        match op {
            Op::Scan { .. } => "C03",
            Op::Hold { .. } | Op::HoldUse { .. } | Op::HoldDrop { .. } => "C07",
            Op::Verify => "C08",
            _ => "C01",
        }
    }

    /// Oracles evaluated after every operation and step.
    fn post_op(&mut self, i: usize, op: &Op) {
        if self.store.is_none() {
            return;
        }
        let shape = self.shape();
        if self.shapes.last() != Some(&shape) {
            self.shapes.push(shape.clone());
        }
        if self.level_overlap.is_none() {
            if let Some(what) = self.find_level_overlap() {
                self.level_overlap = Some((i, op.kind(), what));
                self.probes.hit("level_overlap_state_reached");
            }
        }
        if self.oracles.c01 {
            let mut digest = 0u64;
            let keys: Vec<Vec<u8>> = self.h.keys.iter().map(|k| k.0.clone()).collect();
            for key in keys.iter() {
                let got = match self.store.as_ref().unwrap().load(key) {
                    Ok((v, _)) => v,
                    Err(e) => {
                        self.violate(
                            "C01",
                            format!("load-error:{}", err_class(&e)),
                            format!("load {} after op {i} ({}) failed: {e}", fmt_key(key), op.kind()),
                        );
                        return;
                    }
                };
                let want = self.model.get(key).cloned().flatten();
                if got != want {
                    let class = match (&got, &want) {
                        (None, Some(_)) => "read-lost-write",
                        (Some(_), None) => "read-resurrected",
                        _ => "read-stale-value",
                    };
                    if std::env::var("STORESIM_DEBUG").is_ok() {
                        let s = self.store.as_ref().unwrap();
                        for (li, l) in s.tree().verif_levels().iter().enumerate() {
                            for f in l.iter() {
                                eprintln!("   L{li} {} [{}..{}] ts {}..{} size {}", &f.0.hexdigest()[..8], fmt_key(&f.1), fmt_key(&f.2), f.3, f.4, f.5);
                            }
                        }
                        eprintln!("   reload {} = {:?}", fmt_key(key), s.load(key));
                    }
                    self.violate(
                        "C01",
                        class,
                        format!(
                            "after op {i} ({}): load {} = {}, model {}; shape {}",
                            op.kind(),
                            fmt_key(key),
                            fmt_val(&got),
                            fmt_val(&want),
                            shape
                        ),
                    );
                    return;
                }
                digest = crate::rng::mix(&[
                    digest,
                    got.as_ref().map(|v| crc32c::crc32c(v) as u64 + 1).unwrap_or(0),
                ]);
            }
            self.log.push(format!("  reads={digest:016x}"));
        }
        if self.oracles.c04 {
            crate::books::check(self);
        }
        if self.oracles.c08 {
            crate::files::check_presence(self);
            match op {
                Op::Verify => crate::files::check_contents(self, "verifier-pass"),
                Op::Reopen => crate::files::check_contents(self, "reopen"),
                _ => {}
            }
        }
    }

    /// Run the whole history.
    pub fn run(h: &'h History, cfg: &RunCfg) -> Outcome {
        let _ = std::fs::remove_dir_all(&cfg.root);
        std::fs::create_dir_all(&cfg.root).expect("create run root");
        let mut ex = Exec::new(h, &cfg.root, cfg.oracles);
        let mut op_results = vec![OpResult::NotRun; h.ops.len()];
        if cfg.record_fs || cfg.fault.is_some() {
            fsx::install(&cfg.root, cfg.fault);
        }
        quiet_panics(true);
        let mut fault_op: Option<usize> = None;
        let mut ops_since_fault = 0usize;
        // open
        fsx::mark("open begin");
        let opened = catch_unwind(AssertUnwindSafe(|| ex.open()));
        fsx::mark("open end");
        let mut alive = true;
        match opened {
            Ok(Ok(())) => {}
            Ok(Err(e)) => {
                if fsx::fault_fired().is_none() {
                    ex.cur_op = 0;
                    ex.violate(
                        "C01",
                        format!("open-error:{}", err_class(&e)),
                        format!("initial open failed: {e}"),
                    );
                }
                alive = false;
            }
            Err(_) => {
                let p = take_panic();
                ex.violate(
                    "C01",
                    format!("panic:{}", panic_class(&p)),
                    format!("initial open panicked: {p}"),
                );
                alive = false;
            }
        }
        if alive {
            for (i, op) in h.ops.iter().enumerate() {
                ex.cur_op = i;
                let fired_before = fsx::fault_fired().is_some();
                fsx::mark(format!("op {i} {} begin", op.kind()));
                let res = catch_unwind(AssertUnwindSafe(|| ex.exec_op(i, op)));
                let fired_now = !fired_before && fsx::fault_fired().is_some();
                if fired_now {
                    fault_op = Some(i);
                }
                let faulty = fired_before || fired_now;
                match res {
                    Ok(Ok(())) => {
                        fsx::mark(format!("op {i} {} ok", op.kind()));
                        op_results[i] = OpResult::Ok;
                        model::apply_op(&mut ex.model, h, i, op);
                        ex.log.push(format!("op {i} {} ok", op.kind()));
                    }
                    Ok(Err(e)) => {
                        fsx::mark(format!("op {i} {} err", op.kind()));
                        op_results[i] = OpResult::Err(e.clone());
                        ex.log.push(format!("op {i} {} err {}", op.kind(), err_class(&e)));
                        if e == "WOULD-DEADLOCK" {
                            // C20 state predicate fired (violation already recorded if enabled).
                            break;
                        }
                        if e.contains("too-many-open-files") {
                            // The configured max_open_files was reached: a documented, explicit
                            // resource-limit error, not a defect of any property checked here.
                            ex.probes.hit("run_ended_at_max_open_files_limit");
                            break;
                        }
                        if !faulty {
                            let prop = Self::property_for_error(op, &e);
                            let read_only = matches!(
                                op,
                                Op::Scan { .. } | Op::Hold { .. } | Op::HoldUse { .. }
                            );
                            if read_only && !ex.oracles.enabled(prop) {
                                // A read-only operation failed; that is another property's
                                // business.  Note it and keep going.
                                ex.violate(
                                    prop,
                                    format!("error:{}:{}", op.kind(), err_class(&e)),
                                    format!("fault-free {} returned error: {e}", op.kind()),
                                );
                                continue;
                            }
                            ex.violate(
                                prop,
                                format!("error:{}:{}", op.kind(), err_class(&e)),
                                format!("fault-free {} returned error: {e}", op.kind()),
                            );
                            break;
                        } else {
                            // Under an injected fault an error is the expected, surfaced outcome.
                            break;
                        }
                    }
                    Err(_) => {
                        let p = take_panic();
                        fsx::mark(format!("op {i} {} panic", op.kind()));
                        op_results[i] = OpResult::Panic(p.clone());
                        ex.log.push(format!("op {i} {} panic {}", op.kind(), panic_class(&p)));
                        let prop = if p.contains("skipfree: dereference of a node that is not live")
                        {
                            "C07"
                        } else {
                            Self::property_for_error(op, "")
                        };
                        ex.violate(
                            prop,
                            format!("panic:{}:{}", op.kind(), panic_class(&p)),
                            format!("{} panicked: {p}", op.kind()),
                        );
                        break;
                    }
                }
                if !faulty {
                    let r = catch_unwind(AssertUnwindSafe(|| ex.post_op(i, op)));
                    if r.is_err() {
                        let p = take_panic();
                        ex.violate(
                            "C01",
                            format!("panic:post:{}", panic_class(&p)),
                            format!("oracle reads after op {i} panicked: {p}"),
                        );
                        break;
                    }
                } else {
                    ops_since_fault += 1;
                    if ops_since_fault > cfg.ops_after_fault {
                        break;
                    }
                }
                if cfg.stop_at_first && !ex.violations.is_empty() {
                    break;
                }
            }
        }
        // Orderly shutdown: cursors first, then the store.
        let _ = catch_unwind(AssertUnwindSafe(|| ex.close()));
        quiet_panics(false);
        let (trace, fault_fired) = match fsx::uninstall() {
            Some(ctx) => (ctx.trace, ctx.fault_fired),
            None => (Vec::new(), None),
        };
        Outcome {
            violations: ex.violations,
            op_results,
            probes: ex.probes,
            trace,
            log: ex.log,
            shapes: ex.shapes,
            fault_fired,
            fault_op,
            steps: ex.steps,
        }
    }
}

/// How many consecutive units of compaction work may pass with ingest still stalled before the
/// state is called "stalled, nothing relieves it".  Every unit is real progress (a table moved or
/// merged), so the bound only has to exceed the longest legitimate chain: sinking every table of
/// a full 16-level tree by trivial moves takes 15 units per table (the first bound, 200, was
/// exceeded by two histories of the thorough sweep in which the stall did resolve after a few
/// hundred units).  A state in which a unit does nothing while ingest is stalled is reported at once.
fn stall_guard_limit() -> usize {
    std::env::var("STORESIM_STALL_GUARD").ok().and_then(|s| s.parse().ok()).unwrap_or(10_000)
}
