//! File-system seam.
//!
//! This module defines the libc entry points the store uses to mutate the file system.  Because
//! the symbols are defined in the executable, the static link resolves *every* reference to them
//! (std's included) to these functions; the real work is done with raw system calls.  A
//! thread-local run context, when installed, (a) records the ordered trace of mutating calls
//! under the run's root with their bytes, (b) fails exactly one chosen call with EIO / ENOSPC
//! without performing it.  Without a context every function is a pass-through.

use std::cell::RefCell;
use std::collections::HashMap;
use std::ffi::{CStr, OsStr};
use std::os::unix::ffi::OsStrExt;
use std::path::{Path, PathBuf};

use libc::{c_char, c_int, c_long, c_void, mode_t, off_t, size_t, ssize_t};

#[derive(Clone, Debug, PartialEq, Eq)]
pub enum Ev {
    /// Driver marker (never a crash point).
    Mark(String),
    /// A file was opened; `h` names the open file description in later events.  `created` is true
    /// iff the call created the directory entry; `trunc` iff it truncated existing contents.
    Open {
        h: u64,
        path: String,
        created: bool,
        trunc: bool,
    },
    Write {
        h: u64,
        off: u64,
        data: Vec<u8>,
    },
    Sync {
        h: u64,
    },
    Ftruncate {
        h: u64,
        len: u64,
    },
    Link {
        old: String,
        new: String,
    },
    Rename {
        old: String,
        new: String,
    },
    Unlink {
        path: String,
    },
    Mkdir {
        path: String,
    },
    Rmdir {
        path: String,
    },
}

impl Ev {
    /// True iff this event is a file-system *mutation* (a crash point / fault point).
    pub fn is_mutation(&self) -> bool {
        match self {
            Ev::Mark(_) => false,
            Ev::Open { created, trunc, .. } => *created || *trunc,
            _ => true,
        }
    }

    pub fn kind(&self) -> &'static str {
        match self {
            Ev::Mark(_) => "mark",
            Ev::Open { .. } => "create",
            Ev::Write { .. } => "write",
            Ev::Sync { .. } => "sync",
            Ev::Ftruncate { .. } => "ftruncate",
            Ev::Link { .. } => "link",
            Ev::Rename { .. } => "rename",
            Ev::Unlink { .. } => "unlink",
            Ev::Mkdir { .. } => "mkdir",
            Ev::Rmdir { .. } => "rmdir",
        }
    }

    /// A short, path-relative, data-free description for logs and hashing.
    pub fn describe(&self) -> String {
        match self {
            Ev::Mark(s) => format!("mark {s}"),
            Ev::Open {
                h,
                path,
                created,
                trunc,
            } => format!("open h{h} {path} created={created} trunc={trunc}"),
            Ev::Write { h, off, data } => format!(
                "write h{h} off={off} len={} crc={:08x}",
                data.len(),
                crc32c::crc32c(data)
            ),
            Ev::Sync { h } => format!("sync h{h}"),
            Ev::Ftruncate { h, len } => format!("ftruncate h{h} {len}"),
            Ev::Link { old, new } => format!("link {old} {new}"),
            Ev::Rename { old, new } => format!("rename {old} {new}"),
            Ev::Unlink { path } => format!("unlink {path}"),
            Ev::Mkdir { path } => format!("mkdir {path}"),
            Ev::Rmdir { path } => format!("rmdir {path}"),
        }
    }
}

/// Pseudo errno: the chosen write-family call transfers only the first half of its bytes and
/// returns that count (legal for write(2); not an error).
pub const SHORT_WRITE: i32 = -2;

#[derive(Clone, Copy, Debug, PartialEq, Eq)]
pub struct Fault {
    /// Index among *mutating* calls (0-based) of the call that fails.
    pub at: u64,
    pub errno: i32,
}

pub struct Ctx {
    root: Vec<u8>,
    pub trace: Vec<Ev>,
    pub record_data: bool,
    fds: HashMap<c_int, u64>,
    next_h: u64,
    pub mutations: u64,
    pub fault: Option<Fault>,
    pub fault_fired: Option<String>,
}

thread_local! {
    static CTX: RefCell<Option<Box<Ctx>>> = const { RefCell::new(None) };
}

/// Install a recording context for the calling thread.  `root` must be an absolute path.
pub fn install(root: &Path, fault: Option<Fault>) {
    let mut r = root.as_os_str().as_bytes().to_vec();
    while r.last() == Some(&b'/') {
        r.pop();
    }
    let ctx = Box::new(Ctx {
        root: r,
        trace: Vec::new(),
        record_data: true,
        fds: HashMap::new(),
        next_h: 0,
        mutations: 0,
        fault,
        fault_fired: None,
    });
    CTX.with(|c| *c.borrow_mut() = Some(ctx));
}

/// Remove the context and return it.
pub fn uninstall() -> Option<Box<Ctx>> {
    CTX.with(|c| c.borrow_mut().take())
}

pub fn mark(s: impl Into<String>) {
    let _ = CTX.try_with(|c| {
        if let Ok(mut c) = c.try_borrow_mut() {
            if let Some(ctx) = c.as_mut() {
                ctx.trace.push(Ev::Mark(s.into()));
            }
        }
    });
}

pub fn mutations_so_far() -> u64 {
    CTX.with(|c| c.borrow().as_ref().map(|c| c.mutations).unwrap_or(0))
}

pub fn trace_len() -> usize {
    CTX.with(|c| c.borrow().as_ref().map(|c| c.trace.len()).unwrap_or(0))
}

pub fn fault_fired() -> Option<String> {
    CTX.with(|c| c.borrow().as_ref().and_then(|c| c.fault_fired.clone()))
}

/// Copy of the trace events from index `from` on.
pub fn trace_since(from: usize) -> Vec<Ev> {
    CTX.with(|c| {
        c.borrow()
            .as_ref()
            .map(|c| c.trace[from..].to_vec())
            .unwrap_or_default()
    })
}

fn set_errno(e: c_int) {
    unsafe {
        *libc::__errno_location() = e;
    }
}

impl Ctx {
    fn rel(&self, path: &[u8]) -> Option<String> {
        if path.len() > self.root.len()
            && path.starts_with(&self.root)
            && path[self.root.len()] == b'/'
        {
            Some(String::from_utf8_lossy(&path[self.root.len() + 1..]).into_owned())
        } else if path == self.root.as_slice() {
            Some(String::new())
        } else {
            None
        }
    }

    /// Decide whether the mutating call about to be made should fail.  Returns Some(errno).
    fn pre_mutation(&mut self, what: &str, write_family: bool) -> Option<c_int> {
        let idx = self.mutations;
        self.mutations += 1;
        if let Some(f) = self.fault {
            if f.at == idx {
                let is_write = what.starts_with("write") || what.starts_with("pwrite");
                let is_sync = what.starts_with("fsync") || what.starts_with("fdatasync");
                if (f.errno == SHORT_WRITE && !is_write) || (f.errno == libc::EINTR && !(is_write || is_sync)) {
                    // these two only happen to data transfers (and EINTR to syncs)
                    return None;
                }
                let errno = if f.errno == libc::ENOSPC && !write_family {
                    libc::EIO
                } else {
                    f.errno
                };
                self.fault_fired = Some(format!("call#{idx} {what} errno={errno}"));
                return Some(errno);
            }
        }
        None
    }
}

/// Run `f` with the context if one is installed and not already borrowed.
fn with_ctx<R>(f: impl FnOnce(&mut Ctx) -> R) -> Option<R> {
    CTX.try_with(|c| match c.try_borrow_mut() {
        Ok(mut guard) => guard.as_mut().map(|ctx| f(ctx)),
        Err(_) => None,
    })
    .ok()
    .flatten()
}

fn abs_path(dirfd: c_int, path: &[u8]) -> Vec<u8> {
    if path.first() == Some(&b'/') {
        return path.to_vec();
    }
    let base: PathBuf = if dirfd == libc::AT_FDCWD {
        std::env::current_dir().unwrap_or_default()
    } else {
        std::fs::read_link(format!("/proc/self/fd/{dirfd}")).unwrap_or_default()
    };
    let mut v = base.as_os_str().as_bytes().to_vec();
    v.push(b'/');
    v.extend_from_slice(path);
    v
}

unsafe fn cbytes<'a>(p: *const c_char) -> &'a [u8] {
    CStr::from_ptr(p).to_bytes()
}

fn exists(path: *const c_char) -> bool {
    unsafe { libc::syscall(libc::SYS_faccessat, libc::AT_FDCWD, path, libc::F_OK, 0) == 0 }
}

fn ret_c_int(r: c_long) -> c_int {
    // libc::syscall already sets errno and returns -1 on failure.
    r as c_int
}

thread_local! {
    /// File descriptors opened by this OS thread while a leak guard is active (schedsim: one
    /// execution = one OS thread; a failed execution leaks its tasks and with them their files).
    static LEAK_GUARD: RefCell<Option<Vec<c_int>>> = const { RefCell::new(None) };
}

/// Start noting every descriptor this thread opens.
pub fn leak_guard_begin() {
    let _ = LEAK_GUARD.try_with(|g| *g.borrow_mut() = Some(Vec::new()));
}

/// Close every noted descriptor that is still open; returns how many there were.
pub fn leak_guard_end() -> usize {
    let fds = LEAK_GUARD.try_with(|g| g.borrow_mut().take()).ok().flatten().unwrap_or_default();
    for fd in fds.iter() {
        unsafe {
            libc::syscall(libc::SYS_close, *fd);
        }
    }
    fds.len()
}

fn note_open(fd: c_int) {
    if fd >= 0 {
        let _ = LEAK_GUARD.try_with(|g| {
            if let Ok(mut g) = g.try_borrow_mut() {
                if let Some(v) = g.as_mut() {
                    v.push(fd);
                }
            }
        });
    }
}

fn note_close(fd: c_int) {
    let _ = LEAK_GUARD.try_with(|g| {
        if let Ok(mut g) = g.try_borrow_mut() {
            if let Some(v) = g.as_mut() {
                if let Some(i) = v.iter().rposition(|x| *x == fd) {
                    v.swap_remove(i);
                }
            }
        }
    });
}

unsafe fn do_open(dirfd: c_int, path: *const c_char, flags: c_int, mode: mode_t) -> c_int {
    let fd = do_open_inner(dirfd, path, flags, mode);
    // directory descriptors are handed to fdopendir and closed by closedir inside libc, which
    // does not come back through `close` above: they are not noted
    if (flags & libc::O_DIRECTORY) == 0 {
        note_open(fd);
    }
    fd
}

unsafe fn do_open_inner(dirfd: c_int, path: *const c_char, flags: c_int, mode: mode_t) -> c_int {
    let interesting = with_ctx(|ctx| ctx.rel(&abs_path(dirfd, cbytes(path)))).flatten();
    let rel = match interesting {
        Some(rel) => rel,
        None => {
            return ret_c_int(libc::syscall(libc::SYS_openat, dirfd, path, flags, mode as c_int));
        }
    };
    let existed = exists(path);
    let will_create = (flags & libc::O_CREAT) != 0 && !existed;
    let will_trunc = (flags & libc::O_TRUNC) != 0 && existed;
    if will_create || will_trunc {
        if let Some(Some(errno)) = with_ctx(|ctx| ctx.pre_mutation(&format!("create {rel}"), true))
        {
            set_errno(errno);
            return -1;
        }
    }
    let fd = ret_c_int(libc::syscall(libc::SYS_openat, dirfd, path, flags, mode as c_int));
    if fd >= 0 && (flags & libc::O_DIRECTORY) == 0 {
        with_ctx(|ctx| {
            let h = ctx.next_h;
            ctx.next_h += 1;
            ctx.fds.insert(fd, h);
            ctx.trace.push(Ev::Open {
                h,
                path: rel,
                created: will_create,
                trunc: will_trunc,
            });
        });
    }
    fd
}

#[no_mangle]
pub unsafe extern "C" fn open64(path: *const c_char, flags: c_int, mode: mode_t) -> c_int {
    do_open(libc::AT_FDCWD, path, flags, mode)
}

#[no_mangle]
pub unsafe extern "C" fn open(path: *const c_char, flags: c_int, mode: mode_t) -> c_int {
    do_open(libc::AT_FDCWD, path, flags, mode)
}

#[no_mangle]
pub unsafe extern "C" fn openat64(
    dirfd: c_int,
    path: *const c_char,
    flags: c_int,
    mode: mode_t,
) -> c_int {
    do_open(dirfd, path, flags, mode)
}

#[no_mangle]
pub unsafe extern "C" fn openat(
    dirfd: c_int,
    path: *const c_char,
    flags: c_int,
    mode: mode_t,
) -> c_int {
    do_open(dirfd, path, flags, mode)
}

#[no_mangle]
pub unsafe extern "C" fn close(fd: c_int) -> c_int {
    note_close(fd);
    with_ctx(|ctx| {
        ctx.fds.remove(&fd);
    });
    ret_c_int(libc::syscall(libc::SYS_close, fd))
}

fn handle_of(fd: c_int) -> Option<u64> {
    with_ctx(|ctx| ctx.fds.get(&fd).copied()).flatten()
}

#[no_mangle]
pub unsafe extern "C" fn write(fd: c_int, buf: *const c_void, count: size_t) -> ssize_t {
    let h = match handle_of(fd) {
        Some(h) => h,
        None => return libc::syscall(libc::SYS_write, fd, buf, count) as ssize_t,
    };
    let mut count = count;
    if let Some(Some(errno)) = with_ctx(|ctx| ctx.pre_mutation(&format!("write h{h}"), true)) {
        if errno == SHORT_WRITE {
            count = (count / 2).max(1).min(count);
        } else {
            set_errno(errno);
            return -1;
        }
    }
    let n = libc::syscall(libc::SYS_write, fd, buf, count) as ssize_t;
    if n > 0 {
        let pos = libc::syscall(libc::SYS_lseek, fd, 0 as off_t, libc::SEEK_CUR) as i64;
        let off = (pos - n as i64).max(0) as u64;
        let data = std::slice::from_raw_parts(buf as *const u8, n as usize).to_vec();
        with_ctx(|ctx| ctx.trace.push(Ev::Write { h, off, data }));
    }
    n
}

#[no_mangle]
pub unsafe extern "C" fn writev(fd: c_int, iov: *const libc::iovec, iovcnt: c_int) -> ssize_t {
    let h = match handle_of(fd) {
        Some(h) => h,
        None => return libc::syscall(libc::SYS_writev, fd, iov, iovcnt) as ssize_t,
    };
    let mut short = false;
    if let Some(Some(errno)) = with_ctx(|ctx| ctx.pre_mutation(&format!("writev h{h}"), true)) {
        if errno == SHORT_WRITE {
            short = true;
        } else {
            set_errno(errno);
            return -1;
        }
    }
    let n = if short && iovcnt > 0 {
        // only the first half of the first non-empty buffer is transferred
        let mut first = *iov;
        for i in 0..iovcnt as usize {
            first = *iov.add(i);
            if first.iov_len > 0 {
                break;
            }
        }
        first.iov_len = (first.iov_len / 2).max(1).min(first.iov_len);
        libc::syscall(libc::SYS_writev, fd, &first as *const libc::iovec, 1) as ssize_t
    } else {
        libc::syscall(libc::SYS_writev, fd, iov, iovcnt) as ssize_t
    };
    if n > 0 {
        let pos = libc::syscall(libc::SYS_lseek, fd, 0 as off_t, libc::SEEK_CUR) as i64;
        let off = (pos - n as i64).max(0) as u64;
        let mut data = Vec::with_capacity(n as usize);
        let mut left = n as usize;
        for i in 0..iovcnt as usize {
            let v = &*iov.add(i);
            let take = left.min(v.iov_len);
            data.extend_from_slice(std::slice::from_raw_parts(v.iov_base as *const u8, take));
            left -= take;
            if left == 0 {
                break;
            }
        }
        with_ctx(|ctx| ctx.trace.push(Ev::Write { h, off, data }));
    }
    n
}

unsafe fn do_pwrite(fd: c_int, buf: *const c_void, count: size_t, offset: off_t) -> ssize_t {
    let h = match handle_of(fd) {
        Some(h) => h,
        None => return libc::syscall(libc::SYS_pwrite64, fd, buf, count, offset) as ssize_t,
    };
    let mut count = count;
    if let Some(Some(errno)) = with_ctx(|ctx| ctx.pre_mutation(&format!("pwrite h{h}"), true)) {
        if errno == SHORT_WRITE {
            count = (count / 2).max(1).min(count);
        } else {
            set_errno(errno);
            return -1;
        }
    }
    let n = libc::syscall(libc::SYS_pwrite64, fd, buf, count, offset) as ssize_t;
    if n > 0 {
        let data = std::slice::from_raw_parts(buf as *const u8, n as usize).to_vec();
        with_ctx(|ctx| {
            ctx.trace.push(Ev::Write {
                h,
                off: offset as u64,
                data,
            })
        });
    }
    n
}

#[no_mangle]
pub unsafe extern "C" fn pwrite(
    fd: c_int,
    buf: *const c_void,
    count: size_t,
    offset: off_t,
) -> ssize_t {
    do_pwrite(fd, buf, count, offset)
}

#[no_mangle]
pub unsafe extern "C" fn pwrite64(
    fd: c_int,
    buf: *const c_void,
    count: size_t,
    offset: off_t,
) -> ssize_t {
    do_pwrite(fd, buf, count, offset)
}

unsafe fn do_sync(fd: c_int, nr: c_long, name: &str) -> c_int {
    let h = match handle_of(fd) {
        Some(h) => h,
        None => return ret_c_int(libc::syscall(nr, fd)),
    };
    if let Some(Some(errno)) = with_ctx(|ctx| ctx.pre_mutation(&format!("{name} h{h}"), true)) {
        set_errno(errno);
        return -1;
    }
    let r = ret_c_int(libc::syscall(nr, fd));
    if r == 0 {
        with_ctx(|ctx| ctx.trace.push(Ev::Sync { h }));
    }
    r
}

#[no_mangle]
pub unsafe extern "C" fn fsync(fd: c_int) -> c_int {
    do_sync(fd, libc::SYS_fsync, "fsync")
}

#[no_mangle]
pub unsafe extern "C" fn fdatasync(fd: c_int) -> c_int {
    do_sync(fd, libc::SYS_fdatasync, "fdatasync")
}

unsafe fn do_ftruncate(fd: c_int, len: off_t) -> c_int {
    let h = match handle_of(fd) {
        Some(h) => h,
        None => return ret_c_int(libc::syscall(libc::SYS_ftruncate, fd, len)),
    };
    if let Some(Some(errno)) = with_ctx(|ctx| ctx.pre_mutation(&format!("ftruncate h{h}"), true)) {
        set_errno(errno);
        return -1;
    }
    let r = ret_c_int(libc::syscall(libc::SYS_ftruncate, fd, len));
    if r == 0 {
        with_ctx(|ctx| {
            ctx.trace.push(Ev::Ftruncate {
                h,
                len: len as u64,
            })
        });
    }
    r
}

#[no_mangle]
pub unsafe extern "C" fn ftruncate(fd: c_int, len: off_t) -> c_int {
    do_ftruncate(fd, len)
}

#[no_mangle]
pub unsafe extern "C" fn ftruncate64(fd: c_int, len: off_t) -> c_int {
    do_ftruncate(fd, len)
}

/// Generic helper for the path-based calls.  `rels` are the run-relative forms of the paths the
/// call names (None if outside the run root); the call is recorded iff all are inside.
unsafe fn path_call(
    name: &str,
    rels: Vec<Option<String>>,
    real: impl FnOnce() -> c_long,
    ev: impl FnOnce(Vec<String>) -> Ev,
) -> c_int {
    if rels.iter().any(|r| r.is_none()) {
        return ret_c_int(real());
    }
    let rels: Vec<String> = rels.into_iter().map(|r| r.unwrap()).collect();
    let what = format!("{name} {}", rels.join(" "));
    if let Some(Some(errno)) = with_ctx(|ctx| ctx.pre_mutation(&what, false)) {
        set_errno(errno);
        return -1;
    }
    let r = ret_c_int(real());
    if r == 0 {
        with_ctx(|ctx| ctx.trace.push(ev(rels)));
    }
    r
}

fn rel_of(dirfd: c_int, path: *const c_char) -> Option<String> {
    let bytes = unsafe { cbytes(path) };
    with_ctx(|ctx| ctx.rel(&abs_path(dirfd, bytes))).flatten()
}

#[no_mangle]
pub unsafe extern "C" fn rename(old: *const c_char, new: *const c_char) -> c_int {
    let rels = vec![rel_of(libc::AT_FDCWD, old), rel_of(libc::AT_FDCWD, new)];
    path_call(
        "rename",
        rels,
        || libc::syscall(libc::SYS_rename, old, new),
        |r| Ev::Rename {
            old: r[0].clone(),
            new: r[1].clone(),
        },
    )
}

#[no_mangle]
pub unsafe extern "C" fn renameat(
    olddirfd: c_int,
    old: *const c_char,
    newdirfd: c_int,
    new: *const c_char,
) -> c_int {
    let rels = vec![rel_of(olddirfd, old), rel_of(newdirfd, new)];
    path_call(
        "rename",
        rels,
        || libc::syscall(libc::SYS_renameat, olddirfd, old, newdirfd, new),
        |r| Ev::Rename {
            old: r[0].clone(),
            new: r[1].clone(),
        },
    )
}

#[no_mangle]
pub unsafe extern "C" fn link(old: *const c_char, new: *const c_char) -> c_int {
    let rels = vec![rel_of(libc::AT_FDCWD, old), rel_of(libc::AT_FDCWD, new)];
    path_call(
        "link",
        rels,
        || libc::syscall(libc::SYS_link, old, new),
        |r| Ev::Link {
            old: r[0].clone(),
            new: r[1].clone(),
        },
    )
}

#[no_mangle]
pub unsafe extern "C" fn linkat(
    olddirfd: c_int,
    old: *const c_char,
    newdirfd: c_int,
    new: *const c_char,
    flags: c_int,
) -> c_int {
    let rels = vec![rel_of(olddirfd, old), rel_of(newdirfd, new)];
    path_call(
        "link",
        rels,
        || libc::syscall(libc::SYS_linkat, olddirfd, old, newdirfd, new, flags),
        |r| Ev::Link {
            old: r[0].clone(),
            new: r[1].clone(),
        },
    )
}

#[no_mangle]
pub unsafe extern "C" fn unlink(path: *const c_char) -> c_int {
    let rels = vec![rel_of(libc::AT_FDCWD, path)];
    path_call(
        "unlink",
        rels,
        || libc::syscall(libc::SYS_unlink, path),
        |r| Ev::Unlink { path: r[0].clone() },
    )
}

#[no_mangle]
pub unsafe extern "C" fn unlinkat(dirfd: c_int, path: *const c_char, flags: c_int) -> c_int {
    let rels = vec![rel_of(dirfd, path)];
    let is_dir = (flags & libc::AT_REMOVEDIR) != 0;
    path_call(
        if is_dir { "rmdir" } else { "unlink" },
        rels,
        || libc::syscall(libc::SYS_unlinkat, dirfd, path, flags),
        |r| {
            if is_dir {
                Ev::Rmdir { path: r[0].clone() }
            } else {
                Ev::Unlink { path: r[0].clone() }
            }
        },
    )
}

#[no_mangle]
pub unsafe extern "C" fn mkdir(path: *const c_char, mode: mode_t) -> c_int {
    let rels = vec![rel_of(libc::AT_FDCWD, path)];
    path_call(
        "mkdir",
        rels,
        || libc::syscall(libc::SYS_mkdir, path, mode as c_int),
        |r| Ev::Mkdir { path: r[0].clone() },
    )
}

#[no_mangle]
pub unsafe extern "C" fn rmdir(path: *const c_char) -> c_int {
    let rels = vec![rel_of(libc::AT_FDCWD, path)];
    path_call(
        "rmdir",
        rels,
        || libc::syscall(libc::SYS_rmdir, path),
        |r| Ev::Rmdir { path: r[0].clone() },
    )
}

/// Self-test used at start-up: proves that std::fs really goes through this layer.
pub fn self_test(scratch: &Path) -> Result<(), String> {
    use std::io::Write;
    let root = scratch.join("fsx-selftest");
    let _ = std::fs::remove_dir_all(&root);
    std::fs::create_dir_all(&root).map_err(|e| e.to_string())?;
    install(&root, None);
    let res = (|| -> std::io::Result<()> {
        std::fs::create_dir(root.join("d"))?;
        let mut f = std::fs::File::create(root.join("d/a"))?;
        f.write_all(b"hello")?;
        f.sync_data()?;
        f.write_all(b"world")?;
        f.sync_all()?;
        drop(f);
        std::fs::hard_link(root.join("d/a"), root.join("d/b"))?;
        std::fs::rename(root.join("d/b"), root.join("c"))?;
        std::fs::remove_file(root.join("d/a"))?;
        std::fs::remove_dir(root.join("d"))?;
        Ok(())
    })();
    let ctx = uninstall().ok_or("no ctx")?;
    res.map_err(|e| format!("self-test I/O: {e}"))?;
    let kinds: Vec<&str> = ctx.trace.iter().map(|e| e.kind()).collect();
    let want = vec![
        "mkdir", "create", "write", "sync", "write", "sync", "link", "rename", "unlink", "rmdir",
    ];
    if kinds != want {
        return Err(format!("fs seam self-test: got {kinds:?} want {want:?}"));
    }
    if ctx.mutations != 10 {
        return Err(format!("fs seam self-test: mutations={}", ctx.mutations));
    }
    // Fault injection: the 3rd mutating call (index 2: first write) must fail with EIO.
    let _ = std::fs::remove_dir_all(&root);
    std::fs::create_dir_all(&root).map_err(|e| e.to_string())?;
    install(
        &root,
        Some(Fault {
            at: 2,
            errno: libc::EIO,
        }),
    );
    let res = (|| -> std::io::Result<()> {
        std::fs::create_dir(root.join("d"))?;
        let mut f = std::fs::File::create(root.join("d/a"))?;
        f.write_all(b"hello")?;
        Ok(())
    })();
    let ctx = uninstall().ok_or("no ctx")?;
    let _ = std::fs::remove_dir_all(&root);
    match res {
        Err(e) if e.raw_os_error() == Some(libc::EIO) => {}
        other => return Err(format!("fs seam self-test: fault not surfaced: {other:?}")),
    }
    if ctx.fault_fired.is_none() {
        return Err("fs seam self-test: fault did not fire".into());
    }
    let _ = OsStr::new("");
    Ok(())
}
