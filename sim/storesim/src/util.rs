//! Shared helpers: parallel map in run-index order, hashing, scratch directories, known findings,
//! evidence parts.

use std::collections::BTreeMap;
use std::path::{Path, PathBuf};
use std::sync::atomic::{AtomicU64, Ordering};
use std::sync::{Arc, Mutex};

use serde::{Deserialize, Serialize};
use serde_json::{json, Value};

pub fn fnv(s: &[u8], mut acc: u64) -> u64 {
    if acc == 0 {
        acc = 0xcbf29ce484222325;
    }
    for b in s {
        acc ^= *b as u64;
        acc = acc.wrapping_mul(0x100000001b3);
    }
    acc
}

pub fn hash_lines(lines: &[String]) -> u64 {
    let mut acc = 0;
    for l in lines {
        acc = fnv(l.as_bytes(), acc);
        acc = fnv(b"\n", acc);
    }
    acc
}

pub fn scratch_base() -> PathBuf {
    let base = if Path::new("/dev/shm").is_dir() {
        PathBuf::from("/dev/shm")
    } else {
        std::env::temp_dir()
    };
    base.join(format!("verif-{}", std::process::id()))
}

pub fn scratch_for(worker: usize) -> PathBuf {
    scratch_base().join(format!("w{worker}"))
}

pub fn cleanup_scratch() {
    if std::env::var("STORESIM_KEEP").is_ok() {
        eprintln!("keeping scratch at {}", scratch_base().display());
        return;
    }
    let _ = std::fs::remove_dir_all(scratch_base());
}

/// What each par_map worker is working on and since when (hang supervision).
static RUNNING: Mutex<Vec<(std::thread::ThreadId, u64, std::time::Instant)>> = Mutex::new(Vec::new());

/// A long item (a file whose every offset is damaged, a history with hundreds of crash images)
/// calls this between its parts: it is alive.
pub fn heartbeat() {
    if let Ok(mut r) = RUNNING.lock() {
        let me = std::thread::current().id();
        if let Some(e) = r.iter_mut().find(|e| e.0 == me) {
            e.2 = std::time::Instant::now();
        }
    }
}

/// Run `f(index, worker)` for index in 0..n on `threads` OS threads; results in index order.
/// `deadline` (seconds since start) stops handing out new indices; the result covers the indices handed out (a panicking one is None).
pub fn par_map<T: Send + 'static>(
    n: u64,
    threads: usize,
    budget_s: Option<f64>,
    f: impl Fn(u64, usize) -> T + Send + Sync + 'static,
) -> Vec<Option<T>> {
    // Abort supervision (see /verif/check): each worker notes the index it is working on in
    // $STORESIM_MARKERS/inflight-<worker>, so that after a process abort (a panic inside a
    // destructor while unwinding, a stack overflow) the supervisor knows the candidates;
    // STORESIM_ONLY_RUN=<index> executes just that index.
    let markers: Option<std::path::PathBuf> = std::env::var_os("STORESIM_MARKERS").map(Into::into);
    let only_run: Option<u64> = std::env::var("STORESIM_ONLY_RUN").ok().and_then(|s| s.parse().ok());
    let abort_at: Option<u64> = std::env::var("STORESIM_TEST_ABORT_AT").ok().and_then(|s| s.parse().ok());
    let next = Arc::new(AtomicU64::new(only_run.unwrap_or(0)));
    let n = match only_run {
        Some(i) => n.min(i + 1),
        None => n,
    };
    let results: Arc<Mutex<BTreeMap<u64, T>>> = Arc::new(Mutex::new(BTreeMap::new()));
    let f = Arc::new(f);
    let start = std::time::Instant::now();
    // Hang supervision: an index that has been running for STORESIM_HANG_S seconds (default 120;
    // a run normally takes milliseconds) means the code under test blocked for good, e.g. an
    // ingest waiting on a condition nobody will ever signal.  The blocked thread cannot be
    // recovered, so the process exits with status 3 and /verif/check re-runs the marked indices
    // one at a time to name the one that hangs.
    let hang_s: f64 = std::env::var("STORESIM_HANG_S").ok().and_then(|s| s.parse().ok()).unwrap_or(120.0);
    let all_done = Arc::new(std::sync::atomic::AtomicBool::new(false));
    {
        let all_done = Arc::clone(&all_done);
        std::thread::spawn(move || loop {
            std::thread::sleep(std::time::Duration::from_millis(500));
            if all_done.load(Ordering::SeqCst) {
                return;
            }
            let hung: Vec<u64> = RUNNING
                .lock()
                .unwrap()
                .iter()
                .filter(|(_, _, since)| since.elapsed().as_secs_f64() > hang_s)
                .map(|(_, i, _)| *i)
                .collect();
            if !hung.is_empty() {
                eprintln!("storesim: run index {hung:?} has not returned for {hang_s} s; the process exits with status 3");
                std::process::exit(3);
            }
        });
    }
    let mut handles = Vec::new();
    for w in 0..threads.max(1) {
        let next = Arc::clone(&next);
        let results = Arc::clone(&results);
        let f = Arc::clone(&f);
        let marker = markers.as_ref().map(|d| d.join(format!("inflight-{w}")));
        handles.push(
            std::thread::Builder::new()
                .stack_size(16 << 20)
                .spawn(move || loop {
                    if let Some(b) = budget_s {
                        if start.elapsed().as_secs_f64() > b {
                            break;
                        }
                    }
                    let i = next.fetch_add(1, Ordering::SeqCst);
                    if i >= n {
                        break;
                    }
                    if let Some(m) = marker.as_ref() {
                        let _ = std::fs::write(m, i.to_string());
                    }
                    if abort_at == Some(i) {
                        // self-test of the abort supervision only
                        std::process::abort();
                    }
                    let me = std::thread::current().id();
                    RUNNING.lock().unwrap().push((me, i, std::time::Instant::now()));
                    let r = f(i, w);
                    RUNNING.lock().unwrap().retain(|e| e.0 != me);
                    if let Some(m) = marker.as_ref() {
                        let _ = std::fs::remove_file(m);
                    }
                    results.lock().unwrap().insert(i, r);
                })
                .expect("spawn worker"),
        );
    }
    for h in handles {
        let _ = h.join();
    }
    all_done.store(true, Ordering::SeqCst);
    let mut map = std::mem::take(&mut *results.lock().unwrap());
    // only the indices that were handed out: `n` may be a "no limit" count bounded by the budget
    let handed_out = next.load(Ordering::SeqCst).min(n);
    (only_run.unwrap_or(0)..handed_out).map(|i| map.remove(&i)).collect()
}

///////////////////////////////////////////// known findings ///////////////////////////////////////

#[derive(Clone, Debug, Serialize, Deserialize)]
pub struct Finding {
    pub property: String,
    /// Exact violation class, or a prefix when it ends in '*'.
    pub class: String,
    pub description: String,
    #[serde(default)]
    pub id: String,
}

#[derive(Clone, Debug, Default, Serialize, Deserialize)]
pub struct KnownFindings {
    #[serde(default)]
    pub findings: Vec<Finding>,
    #[serde(default)]
    pub fixed: Vec<Value>,
}

impl KnownFindings {
    pub fn load(path: &Path) -> Self {
        match std::fs::read_to_string(path) {
            Ok(s) => serde_json::from_str(&s).unwrap_or_else(|e| {
                eprintln!("HARNESS-ERROR: cannot parse {}: {e}", path.display());
                std::process::exit(2);
            }),
            Err(_) => KnownFindings::default(),
        }
    }

    pub fn matches(&self, property: &str, class: &str) -> Option<&Finding> {
        self.findings.iter().find(|f| {
            f.property == property
                && if let Some(prefix) = f.class.strip_suffix('*') {
                    class.starts_with(prefix)
                } else {
                    f.class == class
                }
        })
    }
}

///////////////////////////////////////////// evidence parts ///////////////////////////////////////

/// One engine invocation's contribution to /verif/evidence/<id>.json.  The `check` script merges
/// the parts of one property into the final file.
#[derive(Clone, Debug, Serialize, Deserialize, Default)]
pub struct Part {
    pub property_id: String,
    pub engine: String,
    pub phase: String,
    pub tier: String,
    pub seed: u64,
    pub evaluations: u64,
    pub distinct_nontrivial: u64,
    pub rule: String,
    pub samples: Vec<Value>,
    pub wall_s: f64,
    pub violations: u64,
    pub known_findings: Vec<String>,
    pub extra: BTreeMap<String, Value>,
}

impl Part {
    pub fn write(&self, path: &Path) {
        if let Some(parent) = path.parent() {
            let _ = std::fs::create_dir_all(parent);
        }
        let v = serde_json::to_string_pretty(self).expect("serialize part");
        std::fs::write(path, v).expect("write evidence part");
    }
}

pub fn counts_to_json(m: &BTreeMap<String, u64>) -> Value {
    json!(m)
}

/// Parse `--name value` style arguments.
pub struct Args {
    pub map: BTreeMap<String, String>,
    pub free: Vec<String>,
}

impl Args {
    pub fn parse(args: &[String]) -> Self {
        let mut map = BTreeMap::new();
        let mut free = Vec::new();
        let mut i = 0;
        while i < args.len() {
            if let Some(name) = args[i].strip_prefix("--") {
                if i + 1 < args.len() && !args[i + 1].starts_with("--") {
                    map.insert(name.to_string(), args[i + 1].clone());
                    i += 2;
                } else {
                    map.insert(name.to_string(), "true".to_string());
                    i += 1;
                }
            } else {
                free.push(args[i].clone());
                i += 1;
            }
        }
        Self { map, free }
    }

    pub fn get(&self, name: &str) -> Option<&str> {
        self.map.get(name).map(|s| s.as_str())
    }

    pub fn u64(&self, name: &str, default: u64) -> u64 {
        self.get(name)
            .map(|s| s.parse().unwrap_or_else(|_| panic!("--{name} expects an integer")))
            .unwrap_or(default)
    }

    pub fn f64(&self, name: &str, default: f64) -> f64 {
        self.get(name)
            .map(|s| s.parse().unwrap_or_else(|_| panic!("--{name} expects a number")))
            .unwrap_or(default)
    }

    pub fn str(&self, name: &str, default: &str) -> String {
        self.get(name).unwrap_or(default).to_string()
    }
}
