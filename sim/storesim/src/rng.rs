//! One PRNG stream per run.  Everything random in a run is drawn from here; logging never draws.

#[derive(Clone, Debug)]
pub struct Rng {
    s: [u64; 4],
}

fn splitmix(x: &mut u64) -> u64 {
    *x = x.wrapping_add(0x9e3779b97f4a7c15);
    let mut z = *x;
    z = (z ^ (z >> 30)).wrapping_mul(0xbf58476d1ce4e5b9);
    z = (z ^ (z >> 27)).wrapping_mul(0x94d049bb133111eb);
    z ^ (z >> 31)
}

/// Mix several integers into one seed (order-sensitive).
pub fn mix(parts: &[u64]) -> u64 {
    let mut acc = 0x243f6a8885a308d3u64;
    for p in parts {
        acc ^= *p;
        acc = splitmix(&mut acc);
    }
    acc
}

pub fn str_seed(s: &str) -> u64 {
    let mut acc = 0xcbf29ce484222325u64;
    for b in s.bytes() {
        acc ^= b as u64;
        acc = acc.wrapping_mul(0x100000001b3);
    }
    acc
}

impl Rng {
    pub fn new(seed: u64) -> Self {
        let mut x = seed;
        let s = [
            splitmix(&mut x),
            splitmix(&mut x),
            splitmix(&mut x),
            splitmix(&mut x),
        ];
        Self { s }
    }

    pub fn next_u64(&mut self) -> u64 {
        let result = self.s[1].wrapping_mul(5).rotate_left(7).wrapping_mul(9);
        let t = self.s[1] << 17;
        self.s[2] ^= self.s[0];
        self.s[3] ^= self.s[1];
        self.s[1] ^= self.s[2];
        self.s[0] ^= self.s[3];
        self.s[2] ^= t;
        self.s[3] = self.s[3].rotate_left(45);
        result
    }

    /// Uniform in [0, n).  n must be > 0.
    pub fn below(&mut self, n: u64) -> u64 {
        assert!(n > 0);
        // Multiply-shift; bias is irrelevant for our n.
        ((self.next_u64() as u128 * n as u128) >> 64) as u64
    }

    pub fn range(&mut self, lo: u64, hi_incl: u64) -> u64 {
        lo + self.below(hi_incl - lo + 1)
    }

    pub fn usize_below(&mut self, n: usize) -> usize {
        self.below(n as u64) as usize
    }

    pub fn chance(&mut self, num: u64, den: u64) -> bool {
        self.below(den) < num
    }

    pub fn pick<'a, T>(&mut self, xs: &'a [T]) -> &'a T {
        &xs[self.usize_below(xs.len())]
    }

    /// Pick an index according to integer weights.
    pub fn weighted(&mut self, weights: &[u32]) -> usize {
        let total: u64 = weights.iter().map(|w| *w as u64).sum();
        assert!(total > 0);
        let mut x = self.below(total);
        for (i, w) in weights.iter().enumerate() {
            if x < *w as u64 {
                return i;
            }
            x -= *w as u64;
        }
        weights.len() - 1
    }

    pub fn fork(&mut self) -> Rng {
        Rng::new(self.next_u64())
    }
}
