//! Crash images.  A small inode-level model replays a prefix of the recorded system-call trace
//! and materialises what a reopening process would find:
//!
//! * model A (process crash): every completed call persists;
//! * model B (power loss): as A, but file bytes written after that inode's last successful
//!   fsync/fdatasync are lost -- all of them, or all but a seeded prefix of the whole writes.
//!   Directory operations (create, link, rename, unlink, mkdir, rmdir) persist when the call
//!   returns in both models, as the property under test states.

use std::collections::{BTreeMap, BTreeSet, HashMap};
use std::path::Path;

use crate::fsx::Ev;
use crate::rng::Rng;

#[derive(Clone, Debug)]
enum Pending {
    Write { off: u64, data: Vec<u8> },
    Truncate { len: u64 },
}

#[derive(Clone, Debug, Default)]
struct Inode {
    data: Vec<u8>,
    synced: Vec<u8>,
    pending: Vec<Pending>,
}

fn apply(data: &mut Vec<u8>, p: &Pending) {
    match p {
        Pending::Write { off, data: bytes } => {
            let off = *off as usize;
            if data.len() < off + bytes.len() {
                data.resize(off + bytes.len(), 0);
            }
            data[off..off + bytes.len()].copy_from_slice(bytes);
        }
        Pending::Truncate { len } => {
            data.resize(*len as usize, 0);
        }
    }
}

#[derive(Clone, Copy, Debug, PartialEq, Eq, serde::Serialize, serde::Deserialize)]
pub enum Persist {
    /// Process crash.
    A,
    /// Power loss, every unsynced byte lost.
    BNone,
    /// Power loss, a seeded prefix of each inode's unsynced whole writes survives.
    BSome(u64),
}

#[derive(Clone, Debug, Default)]
pub struct Image {
    dirs: BTreeSet<String>,
    names: BTreeMap<String, usize>,
    inodes: Vec<Inode>,
    handles: HashMap<u64, usize>,
    pub applied: usize,
}

impl Image {
    pub fn new() -> Self {
        Self::default()
    }

    /// Apply one trace event.
    pub fn step(&mut self, ev: &Ev) {
        self.applied += 1;
        match ev {
            Ev::Mark(_) => {}
            Ev::Open {
                h,
                path,
                created,
                trunc,
            } => {
                if *created || !self.names.contains_key(path) {
                    self.inodes.push(Inode::default());
                    self.names.insert(path.clone(), self.inodes.len() - 1);
                }
                let ino = self.names[path];
                if *trunc {
                    let p = Pending::Truncate { len: 0 };
                    apply(&mut self.inodes[ino].data, &p);
                    self.inodes[ino].pending.push(p);
                }
                self.handles.insert(*h, ino);
            }
            Ev::Write { h, off, data } => {
                if let Some(ino) = self.handles.get(h).copied() {
                    let p = Pending::Write {
                        off: *off,
                        data: data.clone(),
                    };
                    apply(&mut self.inodes[ino].data, &p);
                    self.inodes[ino].pending.push(p);
                }
            }
            Ev::Ftruncate { h, len } => {
                if let Some(ino) = self.handles.get(h).copied() {
                    let p = Pending::Truncate { len: *len };
                    apply(&mut self.inodes[ino].data, &p);
                    self.inodes[ino].pending.push(p);
                }
            }
            Ev::Sync { h } => {
                if let Some(ino) = self.handles.get(h).copied() {
                    let inode = &mut self.inodes[ino];
                    inode.synced = inode.data.clone();
                    inode.pending.clear();
                }
            }
            Ev::Link { old, new } => {
                if let Some(ino) = self.names.get(old).copied() {
                    self.names.insert(new.clone(), ino);
                }
            }
            Ev::Rename { old, new } => {
                if let Some(ino) = self.names.remove(old) {
                    self.names.insert(new.clone(), ino);
                } else if self.dirs.remove(old) {
                    // directory rename: move the subtree
                    self.dirs.insert(new.clone());
                    let prefix = format!("{old}/");
                    let moved: Vec<String> = self
                        .names
                        .keys()
                        .filter(|k| k.starts_with(&prefix))
                        .cloned()
                        .collect();
                    for k in moved {
                        let ino = self.names.remove(&k).unwrap();
                        self.names
                            .insert(format!("{new}/{}", &k[prefix.len()..]), ino);
                    }
                }
            }
            Ev::Unlink { path } => {
                self.names.remove(path);
            }
            Ev::Mkdir { path } => {
                self.dirs.insert(path.clone());
            }
            Ev::Rmdir { path } => {
                self.dirs.remove(path);
            }
        }
    }

    /// File names (relative) currently present.
    pub fn names(&self) -> impl Iterator<Item = &String> {
        self.names.keys()
    }

    pub fn has(&self, path: &str) -> bool {
        self.names.contains_key(path)
    }

    /// Content of `path` under the persistence model.
    pub fn content(&self, path: &str, persist: Persist) -> Option<Vec<u8>> {
        let ino = *self.names.get(path)?;
        Some(self.inode_content(ino, persist))
    }

    fn inode_content(&self, ino: usize, persist: Persist) -> Vec<u8> {
        let inode = &self.inodes[ino];
        match persist {
            Persist::A => inode.data.clone(),
            Persist::BNone => inode.synced.clone(),
            Persist::BSome(seed) => {
                let mut data = inode.synced.clone();
                if !inode.pending.is_empty() {
                    let mut rng = Rng::new(crate::rng::mix(&[seed, ino as u64]));
                    let keep = rng.usize_below(inode.pending.len() + 1);
                    for p in inode.pending[..keep].iter() {
                        apply(&mut data, p);
                    }
                }
                data
            }
        }
    }

    /// True iff some inode has unsynced bytes (model B differs from model A here).
    pub fn has_unsynced(&self) -> bool {
        let live: BTreeSet<usize> = self.names.values().copied().collect();
        live.iter().any(|i| !self.inodes[*i].pending.is_empty())
    }

    /// Write the image under `root` (which must not exist or be empty).
    pub fn materialize(&self, root: &Path, persist: Persist) -> std::io::Result<()> {
        std::fs::create_dir_all(root)?;
        for d in self.dirs.iter() {
            std::fs::create_dir_all(root.join(d))?;
        }
        let mut first: HashMap<usize, std::path::PathBuf> = HashMap::new();
        for (name, ino) in self.names.iter() {
            let path = root.join(name);
            if let Some(parent) = path.parent() {
                std::fs::create_dir_all(parent)?;
            }
            if let Some(existing) = first.get(ino) {
                std::fs::hard_link(existing, &path)?;
            } else {
                std::fs::write(&path, self.inode_content(*ino, persist))?;
                first.insert(*ino, path);
            }
        }
        Ok(())
    }
}
