//! C04 oracle: setsum books (manifest chain, listed files, file contents).  Filled in below.
use crate::exec::Exec;

#[derive(Default)]
pub struct Books {}

pub fn check(_ex: &mut Exec) {}
