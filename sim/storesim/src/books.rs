//! C04 oracle: the setsum books.  After every operation the manifest fragments on disk are parsed
//! with the public `ManifestIterator` and checked: every transaction starts from the previous
//! output, satisfies input = output + discard with discard = removed - added, every fragment
//! starts with the complete state, the current output equals the sum of the listed digests, and
//! every listed digest names a file whose final block and whose recomputed contents agree with
//! its name.

use std::collections::{BTreeMap, BTreeSet, HashMap};
use std::path::{Path, PathBuf};

use mani::ManifestIterator;
use setsum::Setsum;
use sst::{Sst, SstOptions};

use crate::exec::Exec;

#[derive(Default)]
pub struct Books {
    /// (fragment number, edit index) already checked.
    seen: BTreeSet<(u64, usize)>,
    /// Output setsum after the last edit of each fragment number, and the state there.
    frag_end: BTreeMap<u64, (Setsum, BTreeSet<String>)>,
    /// How many transactions removed / added each digest over the run.
    pub removals: HashMap<String, u32>,
    pub additions: HashMap<String, u32>,
    /// Digests whose file contents have been verified against their name.
    verified_files: BTreeSet<String>,
    pub transactions_checked: u64,
    pub fragments_seen: BTreeSet<u64>,
    /// Canonical text of each fragment's first edit and the number of edits it holds.
    frag_first: BTreeMap<u64, (String, usize)>,
}

fn canonical(edit: &mani::Edit) -> String {
    let mut s = String::new();
    for r in edit.rmed() {
        s.push_str(&format!("-{r};"));
    }
    for a in edit.added() {
        s.push_str(&format!("+{a};"));
    }
    for c in ['I', 'O', 'D', 'L'] {
        if let Some(v) = edit.get_info(c) {
            s.push_str(&format!("{c}{v};"));
        }
    }
    s
}

pub fn list_fragments(root: &Path) -> Vec<(u64, PathBuf)> {
    let mani_root = root.join("mani");
    let mut nums: Vec<u64> = Vec::new();
    if let Ok(rd) = std::fs::read_dir(&mani_root) {
        for e in rd.flatten() {
            if let Some(n) = mani::extract_backup(e.path()) {
                nums.push(n);
            }
        }
    }
    nums.sort();
    // `Manifest` numbers its first backup 1, so a lone MANIFEST is fragment 1.
    let next = nums.last().map(|n| n + 1).unwrap_or(1);
    let mut out: Vec<(u64, PathBuf)> = nums
        .into_iter()
        .map(|n| (n, mani::BACKUP(&mani_root, n)))
        .collect();
    let cur = mani::MANIFEST(&mani_root);
    if cur.is_file() {
        out.push((next, cur));
    }
    out
}

fn info_setsum(edit: &mani::Edit, c: char) -> Option<Setsum> {
    edit.get_info(c).and_then(|s| Setsum::from_hexdigest(s))
}

/// Verify that the file named by `hex` has that digest in its final block and in its contents.
pub fn verify_file(root: &Path, hex: &str) -> Result<(), (String, String)> {
    let path = root.join("sst").join(format!("{hex}.sst"));
    if !path.is_file() {
        return Err(("file:missing".into(), format!("manifest lists {hex} but sst/{hex}.sst does not exist")));
    }
    let sst = Sst::<sst::file_manager::FileHandle>::new(SstOptions::default(), &path)
        .map_err(|e| ("file:unreadable".to_string(), format!("{hex}: {e}")))?;
    let fast = sst.fast_setsum().into_inner().hexdigest();
    if fast != hex {
        return Err((
            "file:name-differs-from-final-block".into(),
            format!("sst/{hex}.sst records setsum {fast} in its final block"),
        ));
    }
    let entries = crate::conserve::dump_file(&path).map_err(|e| ("file:unreadable".to_string(), e))?;
    let mut acc = sst::Setsum::default();
    for (k, ts, v) in entries.iter() {
        match v {
            Some(v) => acc.put(k, *ts, v),
            None => acc.del(k, *ts),
        }
    }
    let recomputed = acc.into_inner().hexdigest();
    if recomputed != hex {
        return Err((
            "file:contents-differ-from-name".into(),
            format!("sst/{hex}.sst: entries recompute to {recomputed}"),
        ));
    }
    Ok(())
}

pub fn check(ex: &mut Exec) {
    let root = ex.root.clone();
    let frags = list_fragments(&root);
    let mut current_state: BTreeSet<String> = BTreeSet::new();
    let mut current_output: Option<Setsum> = None;
    for (num, path) in frags.iter() {
        ex.c04.fragments_seen.insert(*num);
        let iter = match ManifestIterator::open(path) {
            Ok(i) => i,
            Err(e) => {
                ex.violate("C04", "manifest:unreadable", format!("{}: {e}", path.display()));
                return;
            }
        };
        let mut state: BTreeSet<String> = BTreeSet::new();
        let mut prev_output: Option<Setsum> = None;
        let mut idx = 0usize;
        for edit in iter {
            let edit = match edit {
                Ok(e) => e,
                Err(e) => {
                    ex.violate("C04", "manifest:unreadable", format!("fragment {num} edit {idx}: {e}"));
                    return;
                }
            };
            let new = !ex.c04.seen.contains(&(*num, idx));
            let i = info_setsum(&edit, 'I');
            let o = info_setsum(&edit, 'O');
            let d = info_setsum(&edit, 'D');
            for r in edit.rmed() {
                state.remove(r);
            }
            for a in edit.added() {
                state.insert(a.clone());
            }
            if idx == 0 {
                ex.c04.frag_first.insert(*num, (canonical(&edit), 0));
            }
            if let Some(ff) = ex.c04.frag_first.get_mut(num) {
                ff.1 = idx + 1;
            }
            if new {
                ex.c04.seen.insert((*num, idx));
                let (i, o, d) = match (i, o, d) {
                    (Some(i), Some(o), Some(d)) => (i, o, d),
                    _ => {
                        let prev_empty = num
                            .checked_sub(1)
                            .map(|p| !ex.c04.frag_first.contains_key(&p) && ex.c04.fragments_seen.contains(&p))
                            .unwrap_or(false);
                        let class = if idx == 0 && canonical(&edit).is_empty() && prev_empty {
                            "rollover:rollup-of-empty-manifest-lacks-I-O-D"
                        } else {
                            "chain:transaction-lacks-I-O-D"
                        };
                        ex.violate(
                            "C04",
                            class,
                            format!("fragment {num} edit {idx} has no parsable I/O/D (previous fragment file empty: {prev_empty})"),
                        );
                        return;
                    }
                };
                if idx == 0 {
                    // Roll-up: must continue the previous fragment and carry the complete state.
                    if let Some((end_o, end_state)) = ex.c04.frag_end.get(&num.wrapping_sub(1)) {
                        if *end_o != o {
                            let dup = match (ex.c04.frag_first.get(num), ex.c04.frag_first.get(&(num - 1))) {
                                (Some(a), Some(b)) => a.0 == b.0 && b.1 > 1,
                                _ => false,
                            };
                            ex.violate(
                                "C04",
                                if dup {
                                    "rollover:duplicate-fragment-after-interrupted-rollover"
                                } else {
                                    "rollover:first-edit-output-differs-from-previous-fragment"
                                },
                                format!("fragment {num} starts with O={} but fragment {} ended with O={}", o.hexdigest(), num - 1, end_o.hexdigest()),
                            );
                            return;
                        }
                        if *end_state != state {
                            ex.violate(
                                "C04",
                                "rollover:first-edit-not-complete-state",
                                format!("fragment {num} starts with {} digests, fragment {} ended with {}", state.len(), num - 1, end_state.len()),
                            );
                            return;
                        }
                    }
                } else {
                    ex.c04.transactions_checked += 1;
                    for r in edit.rmed() {
                        *ex.c04.removals.entry(r.clone()).or_insert(0) += 1;
                    }
                    for a in edit.added() {
                        *ex.c04.additions.entry(a.clone()).or_insert(0) += 1;
                    }
                    if let Some(po) = prev_output {
                        if po != i {
                            ex.violate(
                                "C04",
                                "chain:input-differs-from-previous-output",
                                format!("fragment {num} edit {idx}: I={} previous O={}", i.hexdigest(), po.hexdigest()),
                            );
                            return;
                        }
                    }
                    if i != o + d {
                        ex.violate(
                            "C04",
                            "chain:input-not-output-plus-discard",
                            format!("fragment {num} edit {idx}: I={} O={} D={}", i.hexdigest(), o.hexdigest(), d.hexdigest()),
                        );
                        return;
                    }
                    let mut computed = Setsum::default();
                    let mut bad = None;
                    for a in edit.added() {
                        match Setsum::from_hexdigest(a) {
                            Some(s) => computed -= s,
                            None => bad = Some(a.clone()),
                        }
                    }
                    for r in edit.rmed() {
                        match Setsum::from_hexdigest(r) {
                            Some(s) => computed += s,
                            None => bad = Some(r.clone()),
                        }
                    }
                    if let Some(b) = bad {
                        ex.violate("C04", "chain:listed-string-is-not-a-digest", format!("fragment {num} edit {idx}: {b:?}"));
                        return;
                    }
                    if computed != d {
                        ex.violate(
                            "C04",
                            "chain:discard-differs-from-removed-minus-added",
                            format!("fragment {num} edit {idx}: D={} removed-added={}", d.hexdigest(), computed.hexdigest()),
                        );
                        return;
                    }
                }
            }
            prev_output = o.or(prev_output);
            idx += 1;
        }
        if let Some(po) = prev_output {
            ex.c04.frag_end.insert(*num, (po, state.clone()));
        }
        current_state = state;
        current_output = prev_output;
    }
    // The committed state: output equals the sum of what is listed.
    if let Some(o) = current_output {
        let mut sum = Setsum::default();
        for hex in current_state.iter() {
            if let Some(s) = Setsum::from_hexdigest(hex) {
                sum += s;
            }
        }
        if sum != o {
            ex.violate(
                "C04",
                "state:output-differs-from-sum-of-listed-digests",
                format!("O={} but the {} listed digests sum to {}", o.hexdigest(), current_state.len(), sum.hexdigest()),
            );
            return;
        }
    }
    // The running tree agrees with the manifest.
    if let Some(store) = ex.store.as_ref() {
        let tree: BTreeSet<String> = store
            .tree()
            .verif_levels()
            .iter()
            .flat_map(|l| l.iter().map(|f| f.0.hexdigest()))
            .collect();
        if tree != current_state {
            ex.violate(
                "C04",
                "state:tree-differs-from-manifest",
                format!("tree holds {} files, manifest lists {}", tree.len(), current_state.len()),
            );
            return;
        }
    }
    // Every listed file is what its name says.
    for hex in current_state.iter() {
        if ex.c04.verified_files.contains(hex) {
            if !root.join("sst").join(format!("{hex}.sst")).is_file() {
                ex.violate("C04", "file:missing", format!("manifest lists {hex} but sst/{hex}.sst does not exist"));
                return;
            }
            continue;
        }
        match verify_file(&root, hex) {
            Ok(()) => {
                ex.c04.verified_files.insert(hex.clone());
                ex.probes.hit("c04_files_recomputed");
            }
            Err((class, detail)) => {
                ex.violate("C04", class, detail);
                return;
            }
        }
    }
}

/// Accept half: the offline manifest verifier accepts every fragment present.
pub fn manifest_verifier_accepts(ex: &mut Exec) {
    let frags = list_fragments(&ex.root);
    let v = match lsmtk::ManifestVerifier::open() {
        Ok(v) => v,
        Err(e) => {
            ex.violate("C04", "manifest-verifier:open-error", format!("{e}"));
            return;
        }
    };
    for (num, path) in frags.iter() {
        if let Err(e) = v.verify(path) {
            ex.violate(
                "C04",
                format!("manifest-verifier:rejects-fault-free-fragment:{}", crate::exec::err_class(&format!("{e}"))),
                format!("ManifestVerifier rejects fragment {num}: {e}"),
            );
            return;
        }
        ex.probes.hit("c04_fragments_accepted_by_manifest_verifier");
    }
}
