//! storesim: deterministic simulation of the lsmtk store on one OS thread per run, with a
//! recording / fault-injecting file-system seam and computed crash images.

mod books;
mod bytesim;
mod conserve;
mod crash;
mod exec;
mod files;
mod fsx;
mod hist;
mod image;
mod manisim;
mod model;
mod rng;
mod seq;
mod tamper;
mod util;

use std::path::Path;

use util::Args;

#[global_allocator]
static GLOBAL: bytesim::alloc_cap::CapAlloc = bytesim::alloc_cap::CapAlloc;

pub fn replay_other(engine: &str, text: &str, path: &Path) -> i32 {
    match engine {
        "manisim" => manisim::replay(text, path),
        "bytesim" | "bytesim-log" => bytesim::replay(text, path),
        "tampersim" => tamper::replay(text, path),
        _ => {
            eprintln!("HARNESS-ERROR: unknown replay engine {engine}");
            2
        }
    }
}

fn main() {
    let argv: Vec<String> = std::env::args().collect();
    if argv.len() < 2 {
        eprintln!("usage: storesim <seq|replay|selftest|gen> [--name value ...]");
        std::process::exit(2);
    }
    exec::install_panic_hook();
    skipfree::verif::enable(true);
    // Store wait lists are allocated per store and per log; the shipped 65536 slots cost
    // ~65 ms per open.  256 slots is far above anything a single-threaded run can link.
    sync42::wait_list::verif::set_default_capacity(256);
    let scratch = util::scratch_base();
    std::fs::create_dir_all(&scratch).expect("scratch dir");
    if let Err(e) = fsx::self_test(&scratch) {
        eprintln!("HARNESS-ERROR: {e}");
        std::process::exit(2);
    }
    let args = Args::parse(&argv[2..]);
    let code = match argv[1].as_str() {
        "seq" => seq::cmd_seq(&args),
        "crash" => crash::cmd_crash(&args),
        "mani" => manisim::cmd_mani(&args),
        "bytes" => bytesim::cmd_bytes(&args),
        "tamper" => tamper::cmd_tamper(&args),
        "replay" => {
            let p = args.free.first().cloned().unwrap_or_default();
            seq::cmd_replay(Path::new(&p))
        }
        "gen" => {
            let p = hist::Profile::by_name(&args.str("profile", "kvs")).expect("profile");
            let h = hist::generate(args.u64("seed", 1), &p);
            println!("{}", serde_json::to_string_pretty(&h).unwrap());
            0
        }
        "debug" => {
            let p = args.free.first().cloned().unwrap_or_default();
            debug_replay(Path::new(&p));
            0
        }
        "selftest" => {
            println!("fs seam self-test passed");
            0
        }
        other => {
            eprintln!("unknown command {other}");
            2
        }
    };
    util::cleanup_scratch();
    std::process::exit(code);
}

pub fn debug_replay(path: &Path) {
    let text = std::fs::read_to_string(path).unwrap();
    let replay: seq::Replay = serde_json::from_str(&text).unwrap();
    let root = util::scratch_for(0).join("debug");
    let _ = std::fs::remove_dir_all(&root);
    std::fs::create_dir_all(&root).unwrap();
    let h = &replay.history;
    let mut ex = exec::Exec::new(h, &root, exec::Oracles::default());
    ex.open().unwrap();
    for (i, op) in h.ops.iter().enumerate() {
        let r = ex.debug_exec(i, op);
        println!("op {i} {op:?} -> {r:?}");
        if let Some(s) = ex.store.as_ref() {
            for (li, l) in s.tree().verif_levels().iter().enumerate() {
                for f in l.iter() {
                    println!("   L{li} {} [{}..{}] ts {}..{} size {}", &f.0.hexdigest()[..8], exec::fmt_key(&f.1), exec::fmt_key(&f.2), f.3, f.4, f.5);
                }
            }
            for k in h.keys.iter() {
                println!("   load {} = {:?}", exec::fmt_key(&k.0), s.load(&k.0).map(|(v, t)| (exec::fmt_val(&v), t)));
            }
        }
    }
}
