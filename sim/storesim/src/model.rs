//! The executable reference model: an ordered map, and a vector-backed reference cursor with the
//! positional semantics the `Cursor` trait documents (index in [-1, len]; two sentinels).

use std::collections::BTreeMap;

use crate::hist::{value_for, Bnd, Cur, History, Op};

pub type Map = BTreeMap<Vec<u8>, Option<Vec<u8>>>;

/// Apply the client-visible effect of `op` (at index `i`) to the model.
pub fn apply_op(model: &mut Map, h: &History, i: usize, op: &Op) {
    match op {
        Op::Put { k, vlen } => {
            model.insert(h.keys[*k].0.clone(), Some(value_for(i, 0, *vlen)));
        }
        Op::Del { k } => {
            model.insert(h.keys[*k].0.clone(), None);
        }
        Op::Batch { ents } | Op::Ingest { ents } => {
            for (j, (k, v)) in ents.iter().enumerate() {
                model.insert(h.keys[*k].0.clone(), v.map(|vlen| value_for(i, j, vlen)));
            }
        }
        _ => {}
    }
}

/// The model state after the first `n` operations.
pub fn state_after(h: &History, n: usize) -> Map {
    let mut m = Map::new();
    for (i, op) in h.ops.iter().enumerate().take(n) {
        apply_op(&mut m, h, i, op);
    }
    m
}

pub fn in_bounds(key: &[u8], lo: &Bnd, hi: &Bnd) -> bool {
    let lo_ok = match lo {
        Bnd::Unb => true,
        Bnd::Inc(k) => key >= k.0.as_slice(),
        Bnd::Exc(k) => key > k.0.as_slice(),
    };
    let hi_ok = match hi {
        Bnd::Unb => true,
        Bnd::Inc(k) => key <= k.0.as_slice(),
        Bnd::Exc(k) => key < k.0.as_slice(),
    };
    lo_ok && hi_ok
}

/// The live (key, value) pairs of the model restricted to the bounds, ascending.
pub fn live_listing(model: &Map, lo: &Bnd, hi: &Bnd) -> Vec<(Vec<u8>, Vec<u8>)> {
    model
        .iter()
        .filter_map(|(k, v)| v.as_ref().map(|v| (k.clone(), v.clone())))
        .filter(|(k, _)| in_bounds(k, lo, hi))
        .collect()
}

/// Reference cursor: index in [-1, len].
#[derive(Clone, Debug)]
pub struct RefCursor {
    pub items: Vec<(Vec<u8>, Vec<u8>)>,
    pub idx: isize,
}

impl RefCursor {
    pub fn new(items: Vec<(Vec<u8>, Vec<u8>)>) -> Self {
        Self { items, idx: -1 }
    }

    pub fn step(&mut self, c: &Cur) {
        let len = self.items.len() as isize;
        match c {
            Cur::First => self.idx = -1,
            Cur::Last => self.idx = len,
            Cur::Seek(k) => {
                self.idx = self.items.partition_point(|(key, _)| key.as_slice() < k.0.as_slice())
                    as isize;
            }
            Cur::Next => {
                if self.idx < len {
                    self.idx += 1;
                }
            }
            Cur::Prev => {
                if self.idx >= 0 {
                    self.idx -= 1;
                }
            }
        }
    }

    pub fn current(&self) -> Option<&(Vec<u8>, Vec<u8>)> {
        if self.idx >= 0 && (self.idx as usize) < self.items.len() {
            Some(&self.items[self.idx as usize])
        } else {
            None
        }
    }
}
