//! `storesim seq`: seeded search over histories x configurations with the sequential executor.
//! Also: minimisation (delta debugging on the operation list) and replay.

use std::collections::{BTreeMap, BTreeSet};
use std::path::{Path, PathBuf};

use serde::{Deserialize, Serialize};
use serde_json::json;

use crate::exec::{Exec, Oracles, Outcome, Probes, RunCfg, Violation};
use crate::hist::{self, History, Op, Profile};
use crate::rng;
use crate::util::{self, Args, KnownFindings, Part};

#[derive(Clone, Debug, Serialize, Deserialize)]
pub struct Replay {
    pub property: String,
    pub engine: String,
    pub class: String,
    pub detail: String,
    pub verif_seed: u64,
    pub run_index: u64,
    pub original_ops: usize,
    pub history: History,
    #[serde(default)]
    pub crash: Option<crate::crash::CrashPoint>,
    #[serde(default)]
    pub fault: Option<crate::crash::FaultPoint>,
}

pub fn oracles_for(prop: &str) -> Oracles {
    Oracles::only(prop)
}

fn run_once(h: &History, root: &Path, oracles: Oracles, record: bool) -> Outcome {
    let cfg = RunCfg {
        root: root.to_path_buf(),
        oracles,
        record_fs: record,
        fault: None,
        // C03 evaluates several independent sub-checks per scan; let a run collect one
        // violation per class instead of stopping at the first.
        stop_at_first: !oracles.c03,
        ops_after_fault: 0,
    };
    Exec::run(h, &cfg)
}

pub fn find_violation<'a>(out: &'a Outcome, prop: &str) -> Option<&'a Violation> {
    out.violations.iter().find(|v| v.property == prop)
}

/// Delta debugging on the op list, then option and value simplification.  `pred` returns true
/// iff the candidate still shows the same violation class.
pub fn minimise(
    h: &History,
    budget: usize,
    mut pred: impl FnMut(&History) -> bool,
) -> (History, usize) {
    let mut best = h.clone();
    let mut attempts = 0usize;
    // 0. truncate after the failing op is done by callers (they know the index).
    // 1. ddmin on ops
    let mut chunk = (best.ops.len() / 2).max(1);
    while chunk >= 1 && attempts < budget {
        let mut i = 0;
        let mut progressed = false;
        while i < best.ops.len() && attempts < budget {
            let end = (i + chunk).min(best.ops.len());
            let mut cand = best.clone();
            cand.ops.drain(i..end);
            attempts += 1;
            if pred(&cand) {
                best = cand;
                progressed = true;
            } else {
                i += chunk;
            }
        }
        if chunk == 1 && !progressed {
            break;
        }
        if chunk > 1 {
            chunk /= 2;
        } else if !progressed {
            break;
        }
    }
    // 2. drop options one at a time (defaults are simpler)
    let mut oi = 0;
    while oi < best.opts.len() && attempts < budget {
        let mut cand = best.clone();
        cand.opts.remove(oi);
        attempts += 1;
        if pred(&cand) {
            best = cand;
        } else {
            oi += 1;
        }
    }
    // 3. shrink values
    for i in 0..best.ops.len() {
        if attempts >= budget {
            break;
        }
        let mut cand = best.clone();
        let changed = match &mut cand.ops[i] {
            Op::Put { vlen, .. } if *vlen > 8 => {
                *vlen = 8;
                true
            }
            Op::Batch { ents } | Op::Ingest { ents } => {
                let mut c = false;
                for e in ents.iter_mut() {
                    if let Some(v) = e.1.as_mut() {
                        if *v > 8 {
                            *v = 8;
                            c = true;
                        }
                    }
                }
                c
            }
            Op::Scan { prog, .. } | Op::HoldUse { prog, .. } if prog.len() > 2 => {
                prog.truncate(prog.len() / 2);
                true
            }
            _ => false,
        };
        if changed {
            attempts += 1;
            if pred(&cand) {
                best = cand;
            }
        }
    }
    (best, attempts)
}

struct RunSummary {
    run_index: u64,
    profile: String,
    nops: usize,
    violations: Vec<Violation>,
    probes: Probes,
    op_kinds: BTreeMap<String, u64>,
    shapes_hash: u64,
    shapes: Vec<String>,
    nontrivial: bool,
    log_hash: u64,
    trace_hash: u64,
    steps: u64,
    sample: Option<serde_json::Value>,
}

fn summarise(run_index: u64, h: &History, out: &Outcome, want_sample: bool) -> RunSummary {
    let mut op_kinds = BTreeMap::new();
    for (op, r) in h.ops.iter().zip(out.op_results.iter()) {
        if *r != crate::exec::OpResult::NotRun {
            *op_kinds.entry(op.kind().to_string()).or_insert(0) += 1;
        }
    }
    let trace_lines: Vec<String> = out.trace.iter().map(|e| e.describe()).collect();
    let nontrivial = out.probes.get("flushes") + out.probes.get("compactions") >= 2
        || (h.mode == hist::Mode::Tree && out.probes.get("compactions") >= 1);
    RunSummary {
        run_index,
        profile: h.profile.clone(),
        nops: h.ops.len(),
        violations: out.violations.clone(),
        probes: out.probes.clone(),
        op_kinds,
        shapes_hash: util::hash_lines(&out.shapes),
        shapes: out.shapes.clone(),
        nontrivial,
        log_hash: util::hash_lines(&out.log),
        trace_hash: util::hash_lines(&trace_lines),
        steps: out.steps,
        sample: if want_sample {
            Some(json!({
                "run_index": run_index,
                "history": h.summary(),
                "opts": h.opts,
                "first_ops": h.ops.iter().take(12).collect::<Vec<_>>(),
                "tree_shapes_seen": out.shapes.iter().take(8).collect::<Vec<_>>(),
                "fs_calls_recorded": out.trace.iter().filter(|e| e.is_mutation()).count(),
            }))
        } else {
            None
        },
    }
}

pub fn history_seed(verif_seed: u64, prop: &str, run_index: u64) -> u64 {
    rng::mix(&[verif_seed, rng::str_seed(prop), run_index])
}

/// Write a replay file and confirm it in a fresh process.  Returns the path.
pub fn write_and_confirm_replay(replay: &Replay, dir: &Path) -> Result<PathBuf, String> {
    std::fs::create_dir_all(dir).map_err(|e| e.to_string())?;
    let name = format!(
        "{}-{}-{:016x}.json",
        replay.property,
        replay.engine,
        util::fnv(
            serde_json::to_string(&replay.history).unwrap().as_bytes(),
            util::fnv(replay.class.as_bytes(), 0)
        )
    );
    let path = dir.join(name);
    std::fs::write(&path, serde_json::to_string_pretty(replay).unwrap())
        .map_err(|e| e.to_string())?;
    let exe = std::env::current_exe().map_err(|e| e.to_string())?;
    let out = std::process::Command::new(exe)
        .arg("replay")
        .arg(&path)
        .output()
        .map_err(|e| e.to_string())?;
    if out.status.code() == Some(1) {
        Ok(path)
    } else {
        Err(format!(
            "replay of {} in a fresh process did not reproduce (exit {:?}): {}",
            path.display(),
            out.status.code(),
            String::from_utf8_lossy(&out.stdout)
        ))
    }
}

pub fn cmd_seq(args: &Args) -> i32 {
    let prop = args.str("prop", "C01");
    let tier = args.str("tier", "quick");
    let seed = args.u64("seed", 1);
    let runs = args.u64("runs", 200);
    let threads = args.u64("threads", 16) as usize;
    let budget_s = args.get("budget-s").map(|s| s.parse::<f64>().unwrap());
    let profiles: Vec<Profile> = args
        .str("profiles", "kvs")
        .split(',')
        .map(|n| Profile::by_name(n).unwrap_or_else(|| panic!("unknown profile {n}")))
        .collect();
    let out_path = PathBuf::from(args.str("out", "/verif/evidence/parts/seq.json"));
    let replay_dir = PathBuf::from(args.str("replay-dir", "/verif/replays"));
    let known = KnownFindings::load(Path::new(&args.str("known", "/verif/known_findings.json")));
    let phase = args.str("phase", "seq");
    let oracles = oracles_for(&prop);
    let start = std::time::Instant::now();
    println!("VERIF_SEED={seed} property={prop} engine=seqsim tier={tier} runs={runs} profiles={:?}",
        profiles.iter().map(|p| p.name).collect::<Vec<_>>());

    let prop2 = prop.clone();
    let profiles2 = profiles.clone();
    let summaries = util::par_map(runs, threads, budget_s, move |r, w| {
        let p = &profiles2[(r % profiles2.len() as u64) as usize];
        let h = hist::generate(history_seed(seed, &prop2, r), p);
        let root = util::scratch_for(w).join("seq");
        let out = run_once(&h, &root, oracles, r < 48 || oracles.c08);
        summarise(r, &h, &out, r < 3)
    });
    let done: Vec<RunSummary> = summaries.into_iter().flatten().collect();

    // Determinism self-test: re-run a sample on other workers and compare event-log hashes.
    let sample_n = (done.len() as u64).min(48);
    let prop3 = prop.clone();
    let profiles3 = profiles.clone();
    let again = util::par_map(sample_n, threads.max(2) - 1, None, move |r, w| {
        let p = &profiles3[(r % profiles3.len() as u64) as usize];
        let h = hist::generate(history_seed(seed, &prop3, r), p);
        let root = util::scratch_for(w + 100).join("seq");
        let out = run_once(&h, &root, oracles, true);
        summarise(r, &h, &out, false)
    });
    let mut nondeterministic = Vec::new();
    for (a, b) in done.iter().zip(again.iter().flatten()) {
        if a.log_hash != b.log_hash || a.trace_hash != b.trace_hash {
            nondeterministic.push(a.run_index);
        }
    }
    if !nondeterministic.is_empty() {
        eprintln!(
            "HARNESS-ERROR: determinism self-test failed for runs {nondeterministic:?} (seed {seed})"
        );
        util::cleanup_scratch();
        return 2;
    }

    // Aggregate.
    let mut probes = Probes::default();
    let mut op_kinds: BTreeMap<String, u64> = BTreeMap::new();
    let mut distinct: BTreeSet<u64> = BTreeSet::new();
    let mut shapes: BTreeSet<String> = BTreeSet::new();
    let mut steps = 0u64;
    let mut total_ops = 0u64;
    let mut samples = Vec::new();
    let mut other: BTreeMap<String, u64> = BTreeMap::new();
    let mut mine: Vec<(u64, Violation)> = Vec::new();
    for s in done.iter() {
        probes.merge(&s.probes);
        for (k, v) in s.op_kinds.iter() {
            *op_kinds.entry(k.clone()).or_insert(0) += v;
        }
        if s.nontrivial {
            distinct.insert(s.shapes_hash);
        }
        for sh in s.shapes.iter() {
            shapes.insert(sh.clone());
        }
        steps += s.steps;
        total_ops += s.nops as u64;
        if let Some(sm) = s.sample.clone() {
            samples.push(sm);
        }
        for v in s.violations.iter() {
            if v.property == prop {
                mine.push((s.run_index, v.clone()));
            } else {
                *other.entry(format!("{}:{}", v.property, v.class)).or_insert(0) += 1;
            }
        }
    }

    // Triage violations of this property: known findings vs new.
    let mut known_lines: BTreeMap<String, (String, u64)> = BTreeMap::new();
    let mut new_by_class: BTreeMap<String, (u64, Violation)> = BTreeMap::new();
    for (r, v) in mine.iter() {
        if let Some(f) = known.matches(&v.property, &v.class) {
            let e = known_lines
                .entry(f.class.clone())
                .or_insert((f.description.clone(), 0));
            e.1 += 1;
        } else {
            new_by_class.entry(v.class.clone()).or_insert((*r, v.clone()));
        }
    }
    let mut known_out = Vec::new();
    for (class, (desc, n)) in known_lines.iter() {
        println!("KNOWN-FINDING: property={prop} class={class} seen_in_runs={n} {desc}");
        known_out.push(format!("{class} (seen in {n} runs)"));
    }
    let mut exit = 0;
    let mut reported = 0;
    let only_class = args.get("only-class").map(|s| s.to_string());
    for (class, (r, v)) in new_by_class.iter() {
        if let Some(oc) = only_class.as_ref() {
            if class != oc {
                continue;
            }
        }
        if reported >= 3 {
            break;
        }
        reported += 1;
        let p = &profiles[(*r % profiles.len() as u64) as usize];
        let h0 = hist::generate(history_seed(seed, &prop, *r), p);
        let mut h1 = h0.clone();
        h1.ops.truncate(v.op_index + 1);
        let root = util::scratch_for(0).join("min");
        let class2 = class.clone();
        let prop4 = prop.clone();
        let pred = |cand: &History| {
            let out = run_once(cand, &root, oracles, oracles.c08);
            out.violations
                .iter()
                .any(|x| x.property == prop4 && x.class == class2)
        };
        let (hmin, attempts) = if pred(&h1) {
            minimise(&h1, 300, pred)
        } else {
            (h0.clone(), 0)
        };
        let out = run_once(&hmin, &root, oracles, oracles.c08);
        let vmin = out
            .violations
            .iter()
            .find(|x| x.property == prop && x.class == *class)
            .cloned()
            .unwrap_or_else(|| v.clone());
        let replay = Replay {
            property: prop.clone(),
            engine: "seqsim".to_string(),
            class: class.clone(),
            detail: vmin.detail.clone(),
            verif_seed: seed,
            run_index: *r,
            original_ops: h0.ops.len(),
            history: hmin.clone(),
            crash: None,
            fault: None,
        };
        match write_and_confirm_replay(&replay, &replay_dir) {
            Ok(path) => {
                println!(
                    "violation class={class} run={r} minimised {}->{} ops in {attempts} attempts: {}",
                    h0.ops.len(),
                    hmin.ops.len(),
                    vmin.detail
                );
                println!("VIOLATION property={prop} replay={}", path.display());
                exit = 1;
            }
            Err(e) => {
                eprintln!("HARNESS-ERROR: {e}");
                util::cleanup_scratch();
                return 2;
            }
        }
    }

    let wall = start.elapsed().as_secs_f64();
    let mut extra = BTreeMap::new();
    extra.insert("runs_completed".to_string(), json!(done.len()));
    extra.insert("runs_requested".to_string(), json!(runs));
    extra.insert("runs_per_hour".to_string(), json!((done.len() as f64 / wall * 3600.0) as u64));
    extra.insert("operations_executed".to_string(), json!(total_ops));
    extra.insert("background_steps_executed".to_string(), json!(steps));
    extra.insert("operations_by_kind".to_string(), json!(op_kinds));
    extra.insert("probes".to_string(), json!(probes.0));
    extra.insert("distinct_tree_shapes".to_string(), json!(shapes.len()));
    extra.insert(
        "determinism_selftest".to_string(),
        json!({"runs_executed_twice": sample_n, "mismatches": 0}),
    );
    extra.insert("other_property_observations".to_string(), json!(other));
    let mut class_counts: BTreeMap<String, u64> = BTreeMap::new();
    for (_, v) in mine.iter() {
        *class_counts.entry(v.class.clone()).or_insert(0) += 1;
    }
    extra.insert("violation_classes_seen".to_string(), json!(class_counts));
    extra.insert(
        "profiles".to_string(),
        json!(profiles.iter().map(|p| p.name).collect::<Vec<_>>()),
    );
    let part = Part {
        property_id: prop.clone(),
        engine: "seqsim".to_string(),
        phase,
        tier,
        seed,
        evaluations: done.len() as u64,
        distinct_nontrivial: distinct.len() as u64,
        rule: "one evaluation = one seeded history (configuration, key universe, 8-120 operations with flush/compaction/GC/verifier/reopen steps placed by the generator) executed against the real store with the property's oracle after every operation; non-trivial = at least two background steps (flush or compaction) actually ran (tree mode: at least one compaction); distinct = distinct sequence of tree-shape signatures (files per level + L0 overlap count) reached during the run".to_string(),
        samples,
        wall_s: wall,
        violations: new_by_class.len() as u64,
        known_findings: known_out,
        extra,
    };
    part.write(&out_path);
    println!(
        "seqsim {prop}: {} runs, {} distinct non-trivial, {} tree shapes, {:.1}s, new violation classes: {}",
        done.len(),
        distinct.len(),
        shapes.len(),
        wall,
        new_by_class.len()
    );
    util::cleanup_scratch();
    exit
}

pub fn cmd_replay(path: &Path) -> i32 {
    let text = match std::fs::read_to_string(path) {
        Ok(t) => t,
        Err(e) => {
            eprintln!("HARNESS-ERROR: cannot read {}: {e}", path.display());
            return 2;
        }
    };
    let engine = serde_json::from_str::<serde_json::Value>(&text)
        .ok()
        .and_then(|v| v.get("engine").and_then(|e| e.as_str()).map(|s| s.to_string()))
        .unwrap_or_default();
    if !matches!(engine.as_str(), "seqsim" | "crashsim" | "faultsim") {
        let code = crate::replay_other(&engine, &text, path);
        util::cleanup_scratch();
        return code;
    }
    let replay: Replay = match serde_json::from_str(&text) {
        Ok(r) => r,
        Err(e) => {
            eprintln!("HARNESS-ERROR: cannot parse {}: {e}", path.display());
            return 2;
        }
    };
    let code = match replay.engine.as_str() {
        "seqsim" => {
            let root = util::scratch_for(0).join("replay");
            let out = run_once(&replay.history, &root, oracles_for(&replay.property), true);
            for l in out.log.iter() {
                println!("  {l}");
            }
            match out
                .violations
                .iter()
                .find(|v| v.property == replay.property && v.class == replay.class)
            {
                Some(v) => {
                    println!("reproduced: class={} op={} {}", v.class, v.op_index, v.detail);
                    println!("VIOLATION property={} replay={}", replay.property, path.display());
                    1
                }
                None => {
                    println!(
                        "NOT-REPRODUCED: expected class {} (violations seen: {:?})",
                        replay.class, out.violations
                    );
                    0
                }
            }
        }
        "crashsim" | "faultsim" => crate::crash::replay(&replay, path),
        other => crate::replay_other(other, &text, path),
    };
    util::cleanup_scratch();
    code
}
