//! C13: the `mani` crate alone.  Seeded edit sequences with rollovers and reopens; fault-free
//! reopen must yield exactly the model; every crash point (models A/B) and every truncation
//! length of MANIFEST must yield the state after some prefix of the edits or an explicit error.

use std::collections::{BTreeMap, BTreeSet};
use std::panic::{catch_unwind, AssertUnwindSafe};
use std::path::{Path, PathBuf};

use arrrg::CommandLine;
use mani::{Edit, Manifest, ManifestOptions};
use serde::{Deserialize, Serialize};
use serde_json::json;

use crate::exec::{self, err_class, panic_class, Probes};
use crate::fsx::{self, Ev};
use crate::image::{Image, Persist};
use crate::rng::{self, Rng};
use crate::util::{self, Args, KnownFindings, Part};

#[derive(Clone, Debug, Serialize, Deserialize, PartialEq, Eq)]
pub enum MOp {
    Edit {
        rm: Vec<usize>,
        add: Vec<usize>,
        info: Vec<(char, usize)>,
    },
    Rollover,
    Reopen,
}

#[derive(Clone, Debug, Serialize, Deserialize, PartialEq, Eq)]
pub struct MHist {
    pub seed: u64,
    pub class: String,
    pub ratio: u64,
    pub pool: Vec<String>,
    pub ops: Vec<MOp>,
}

#[derive(Clone, Debug, Serialize, Deserialize)]
pub struct MReplay {
    pub property: String,
    pub engine: String,
    pub class: String,
    pub detail: String,
    pub verif_seed: u64,
    pub run_index: u64,
    pub history: MHist,
    /// crash point: (k, persist); or cut length of MANIFEST
    pub crash: Option<(u64, Persist)>,
    pub cut: Option<u64>,
}

type State = (BTreeSet<String>, BTreeMap<char, String>);

fn apply_model(s: &mut State, h: &MHist, op: &MOp) {
    if let MOp::Edit { rm, add, info } = op {
        // an edit that the API refuses to build (a string or info key the line format cannot
        // carry) is never applied: an explicit rejection, not a state change
        if build_edit(h, rm, add, info).is_err() {
            return;
        }
        for r in rm {
            s.0.remove(&h.pool[*r]);
        }
        for a in add {
            s.0.insert(h.pool[*a].clone());
        }
        for (c, v) in info {
            s.1.insert(*c, h.pool[*v].clone());
        }
    }
}

fn states(h: &MHist) -> Vec<State> {
    let mut out = vec![State::default()];
    let mut cur = State::default();
    for op in h.ops.iter() {
        apply_model(&mut cur, h, op);
        out.push(cur.clone());
    }
    out
}

fn options(ratio: u64) -> ManifestOptions {
    let r = ratio.to_string();
    let (o, _) = ManifestOptions::from_arguments_relaxed("manisim", &["--log-rollover-ratio", &r]);
    o
}

fn read_state(m: &Manifest) -> State {
    let strs: BTreeSet<String> = m.strs().map(|s| s.to_string()).collect();
    let mut info = BTreeMap::new();
    for c in (0u8..128).map(|b| b as char) {
        if let Some(v) = m.info(c) {
            info.insert(c, v.to_string());
        }
    }
    (strs, info)
}

pub fn generate(seed: u64, class: &str) -> MHist {
    let mut rng = Rng::new(rng::mix(&[seed, rng::str_seed(class)]));
    let mut pool: Vec<String> = Vec::new();
    let plain = [
        "a", "b", "thing one", "thing two", "0123456789abcdef", "x/y/z.sst", "+plus", "-minus",
        "--------x", " lead", "trail ", "\ttab", "a\u{1}b", "\u{7f}", "~", "I", "O", "D",
        "ffffffffffffffffffffffffffffffffffffffffffffffffffffffffffffffff",
        "a\rb", "\u{0}", "x\u{0}y", "\r\r.", "deadbeef+x", "--------",
    ];
    let n = rng.range(3, 10) as usize;
    for _ in 0..n {
        pool.push(rng.pick(&plain).to_string());
    }
    if rng.chance(1, 15) {
        pool.push("L".repeat(rng.range(1000, 3000) as usize));
    }
    if class == "odd-strings" {
        // strings the statement includes ("every non-newline byte") that the format mishandles
        let odd = ["", "a\r", "\r", "\u{e9}", "--------", "caf\u{e9}"];
        for _ in 0..rng.range(1, 3) {
            pool.push(rng.pick(&odd).to_string());
        }
    }
    pool.sort();
    pool.dedup();
    let info_keys: Vec<char> = if class == "odd-strings" {
        vec!['I', 'O', 'x', '+', '-', ' ']
    } else {
        vec!['I', 'O', 'D', 'L', 'x', '9', '~']
    };
    let nops = rng.range(3, 24) as usize;
    let mut ops = Vec::new();
    for _ in 0..nops {
        match rng.below(10) {
            0 => ops.push(MOp::Rollover),
            1 => ops.push(MOp::Reopen),
            _ => {
                let mut rm = Vec::new();
                let mut add = Vec::new();
                let mut info = Vec::new();
                for _ in 0..rng.below(3) {
                    rm.push(rng.usize_below(pool.len()));
                }
                for _ in 0..rng.below(4) {
                    add.push(rng.usize_below(pool.len()));
                }
                for _ in 0..rng.below(3) {
                    info.push((*rng.pick(&info_keys), rng.usize_below(pool.len())));
                }
                rm.sort();
                rm.dedup();
                add.sort();
                add.dedup();
                // info is a map: later entries for the same key win; keep one per key
                let mut seen = BTreeSet::new();
                info.retain(|(c, _)| seen.insert(*c));
                ops.push(MOp::Edit { rm, add, info });
            }
        }
    }
    MHist {
        seed,
        class: class.to_string(),
        ratio: *rng.pick(&[0u64, 1, 2, 2, 8]),
        pool,
        ops,
    }
}

pub struct Viol {
    pub class: String,
    pub detail: String,
    pub crash: Option<(u64, Persist)>,
    pub cut: Option<u64>,
}

struct RunOut {
    trace: Vec<Ev>,
    /// trace index at which each op ended Ok
    viol: Option<Viol>,
    completed: usize,
}

fn build_edit(h: &MHist, rm: &[usize], add: &[usize], info: &[(char, usize)]) -> Result<Edit, String> {
    let mut e = Edit::default();
    for r in rm {
        e.rm(&h.pool[*r]).map_err(|x| format!("{x}"))?;
    }
    for a in add {
        e.add(&h.pool[*a]).map_err(|x| format!("{x}"))?;
    }
    for (c, v) in info {
        e.info(*c, &h.pool[*v]).map_err(|x| format!("{x}"))?;
    }
    Ok(e)
}

/// Fault-free execution with recording; checks reopen == model at every Reopen and at the end.
fn run_history(h: &MHist, root: &Path) -> RunOut {
    let _ = std::fs::remove_dir_all(root);
    std::fs::create_dir_all(root).expect("mani root");
    let mroot = root.join("m");
    fsx::install(root, None);
    exec::quiet_panics(true);
    let mut viol: Option<Viol> = None;
    let mut completed = 0usize;
    let mut model = State::default();
    let r = catch_unwind(AssertUnwindSafe(|| -> Result<(), (String, String)> {
        fsx::mark("open begin");
        let mut m = Manifest::open(options(h.ratio), &mroot).map_err(|e| ("open-error".to_string(), format!("{e}")))?;
        fsx::mark("open end");
        for (i, op) in h.ops.iter().enumerate() {
            fsx::mark(format!("op {i} x begin"));
            match op {
                MOp::Edit { rm, add, info } => {
                    match build_edit(h, rm, add, info) {
                        Ok(e) => m.apply(e).map_err(|e| (format!("apply-error:{}", err_class(&format!("{e}"))), format!("op {i}: {e}")))?,
                        Err(_) => {
                            // explicit rejection when the edit is built: nothing is applied
                        }
                    }
                }
                MOp::Rollover => {
                    m.rollover().map_err(|e| (format!("rollover-error:{}", err_class(&format!("{e}"))), format!("op {i}: {e}")))?;
                }
                MOp::Reopen => {
                    drop(m);
                    m = Manifest::open(options(h.ratio), &mroot)
                        .map_err(|e| (format!("reopen-error:{}", err_class(&format!("{e}"))), format!("op {i}: fault-free reopen failed: {e}")))?;
                }
            }
            apply_model(&mut model, h, op);
            fsx::mark(format!("op {i} x ok"));
            completed = i + 1;
            let got = read_state(&m);
            if got != model {
                return Err((
                    if matches!(op, MOp::Reopen) { "reopen-state-differs-from-model" } else { "live-state-differs-from-model" }.to_string(),
                    format!("after op {i} {op:?}: manifest holds {got:?}, model {model:?}"),
                ));
            }
        }
        drop(m);
        // final reopen and the crate's own verifier
        let m = Manifest::open(options(h.ratio), &mroot)
            .map_err(|e| (format!("reopen-error:{}", err_class(&format!("{e}"))), format!("final fault-free reopen failed: {e}")))?;
        let got = read_state(&m);
        if got != model {
            return Err(("reopen-state-differs-from-model".to_string(), format!("final reopen: manifest holds {got:?}, model {model:?}")));
        }
        drop(m);
        Ok(())
    }));
    match r {
        Ok(Ok(())) => {}
        Ok(Err((class, detail))) => viol = Some(Viol { class, detail, crash: None, cut: None }),
        Err(_) => {
            let p = exec::take_panic();
            viol = Some(Viol { class: format!("panic:{}", panic_class(&p)), detail: p, crash: None, cut: None });
        }
    }
    exec::quiet_panics(false);
    let trace = fsx::uninstall().map(|c| c.trace).unwrap_or_default();
    RunOut { trace, viol, completed }
}

/// Execute a history fault-free in `mroot` (used as a file generator by bytesim).
pub fn execute_plain(h: &MHist, mroot: &Path) -> Result<(), String> {
    let mut m = Manifest::open(options(h.ratio), mroot).map_err(|e| format!("{e}"))?;
    for op in h.ops.iter() {
        match op {
            MOp::Edit { rm, add, info } => {
                if let Ok(e) = build_edit(h, rm, add, info) {
                    m.apply(e).map_err(|e| format!("{e}"))?;
                }
            }
            MOp::Rollover => m.rollover().map_err(|e| format!("{e}"))?,
            MOp::Reopen => {
                drop(m);
                m = Manifest::open(options(h.ratio), mroot).map_err(|e| format!("{e}"))?;
            }
        }
    }
    Ok(())
}

/// Fragments chain without gaps: checked with the crate's own `Manifest::verify`.
fn verify_chain(h: &MHist, mroot: &Path) -> Option<Viol> {
    let errs: Vec<String> = Manifest::verify(options(h.ratio), mroot).map(|e| format!("{e}")).collect();
    if errs.is_empty() {
        None
    } else {
        Some(Viol {
            class: format!("fragments-do-not-chain:{}", err_class(&errs[0])),
            detail: format!("Manifest::verify reports: {}", errs.join(" | ")),
            crash: None,
            cut: None,
        })
    }
}

/// Reopen a (damaged or crashed) manifest directory and judge the result against the allowed
/// prefix states.  Returns (violation, outcome tag).
fn judge_reopen(h: &MHist, mroot: &Path, allowed: &[State]) -> (Option<(String, String)>, &'static str) {
    exec::quiet_panics(true);
    let r = catch_unwind(AssertUnwindSafe(|| Manifest::open(options(h.ratio), mroot).map(|m| read_state(&m))));
    exec::quiet_panics(false);
    match r {
        Err(_) => {
            let p = exec::take_panic();
            (Some((format!("reopen-panicked:{}", panic_class(&p)), p)), "panic")
        }
        Ok(Err(_)) => (None, "explicit-error"),
        Ok(Ok(got)) => {
            if allowed.iter().any(|s| *s == got) {
                (None, "prefix-state")
            } else {
                // part of one edit?
                (
                    Some((
                        "reopen-yields-state-that-is-no-prefix-of-the-edits".to_string(),
                        format!("reopened state {got:?} is not the state after any allowed prefix"),
                    )),
                    "wrong",
                )
            }
        }
    }
}

/// After a successful reopen of a damaged manifest: apply one more edit, reopen again, and
/// require exactly (what the reopen showed) + (that edit).
fn edit_after_recovery(h: &MHist, mroot: &Path, chain: bool) -> Option<(String, String)> {
    exec::quiet_panics(true);
    let r = catch_unwind(AssertUnwindSafe(|| -> Result<(), (String, String)> {
        let mut m = Manifest::open(options(h.ratio), mroot).map_err(|e| ("second-reopen-failed".to_string(), format!("{e}")))?;
        let before = read_state(&m);
        let mut e = Edit::default();
        e.add("zz-added-after-recovery").map_err(|x| ("edit-rejected".to_string(), format!("{x}")))?;
        e.info('z', "after-recovery").map_err(|x| ("edit-rejected".to_string(), format!("{x}")))?;
        m.apply(e).map_err(|x| ("apply-after-recovery-failed".to_string(), format!("{x}")))?;
        // After a crash (not after an arbitrary cut, which may have destroyed a roll-up) the handle
        // that recovered keeps working: a rollover through it, one more (empty) edit, and the
        // fragments must still chain without gaps.
        if chain {
            m.rollover().map_err(|x| ("rollover-after-recovery-failed".to_string(), format!("{x}")))?;
            m.apply(Edit::default()).map_err(|x| ("apply-after-recovery-failed".to_string(), format!("{x}")))?;
        }
        drop(m);
        let errs: Vec<String> = if chain { Manifest::verify(options(h.ratio), mroot).map(|e| format!("{e}")).collect() } else { Vec::new() };
        if !errs.is_empty() {
            return Err((
                format!("fragments-do-not-chain-after-recovery-and-rollover:{}", err_class(&errs[0])),
                format!("Manifest::verify reports: {}", errs.join(" | ")),
            ));
        }
        let m = Manifest::open(options(h.ratio), mroot)
            .map_err(|e| ("reopen-after-acknowledged-edit-failed".to_string(), format!("the edit applied after recovery was acknowledged, then: {e}")))?;
        let got = read_state(&m);
        let mut want = before.clone();
        want.0.insert("zz-added-after-recovery".to_string());
        want.1.insert('z', "after-recovery".to_string());
        if got != want {
            return Err((
                "state-after-recovery-and-one-more-edit-is-not-recovered-state-plus-edit".to_string(),
                format!("recovered {before:?}, after one more edit and a reopen {got:?}"),
            ));
        }
        Ok(())
    }));
    exec::quiet_panics(false);
    match r {
        Ok(Ok(())) => None,
        Ok(Err(x)) => Some(x),
        Err(_) => {
            let p = exec::take_panic();
            Some((format!("panic-after-recovery:{}", panic_class(&p)), p))
        }
    }
}

fn analyse_points(trace: &[Ev]) -> Vec<(usize, usize, Option<usize>, &'static str)> {
    // (event index, acked ops, in-flight op, next call kind)
    let mut out = Vec::new();
    let mut acked = 0usize;
    let mut in_flight = None;
    for (idx, ev) in trace.iter().enumerate() {
        match ev {
            Ev::Mark(m) => {
                let parts: Vec<&str> = m.split(' ').collect();
                if parts.len() == 4 && parts[0] == "op" {
                    let i: usize = parts[1].parse().unwrap_or(0);
                    match parts[3] {
                        "begin" => in_flight = Some(i),
                        "ok" => {
                            in_flight = None;
                            acked = i + 1;
                        }
                        _ => in_flight = None,
                    }
                }
            }
            e if e.is_mutation() => out.push((idx, acked, in_flight, e.kind())),
            _ => {}
        }
    }
    out.push((trace.len(), acked, None, "end"));
    out
}

#[derive(Default)]
struct MResult {
    evaluations: u64,
    distinct: BTreeSet<String>,
    outcomes: BTreeMap<String, u64>,
    viols: Vec<Viol>,
    sample: Option<serde_json::Value>,
    calls: u64,
}

fn examine(h: &MHist, worker: usize, seed: u64, only: Option<(Option<(u64, Persist)>, Option<u64>)>) -> MResult {
    let mut res = MResult::default();
    let base = util::scratch_for(worker).join("mani");
    let root = base.join("run");
    let out = run_history(h, &root);
    res.evaluations += 1;
    if let Some(v) = out.viol {
        res.viols.push(v);
        prefix_classes(h, &mut res);
        return res;
    }
    let all = states(h);
    if let Some(v) = verify_chain(h, &root.join("m")) {
        res.viols.push(v);
    }
    let points = analyse_points(&out.trace);
    res.calls = points.len() as u64 - 1;
    res.sample = Some(json!({
        "ratio": h.ratio, "pool": h.pool, "ops": h.ops.iter().take(8).collect::<Vec<_>>(),
        "mutating_calls": points.len() - 1,
    }));
    // crash points
    let img_dir = base.join("img");
    let mut image = Image::new();
    let mut next = 0usize;
    let n = points.len();
    let mut do_point = |pi: usize, image: &Image, res: &mut MResult| {
        let (_, acked, in_flight, kind) = points[pi];
        let mut allowed = vec![all[acked].clone()];
        if let Some(i) = in_flight {
            if i + 1 < all.len() && i >= acked {
                allowed.push(all[i + 1].clone());
            }
        }
        let mut persists = vec![Persist::A];
        if image.has_unsynced() {
            persists.push(Persist::BNone);
            persists.push(Persist::BSome(rng::mix(&[seed, pi as u64])));
        }
        for persist in persists {
            if let Some((Some((k, p)), _)) = only.as_ref() {
                if *k != pi as u64 || *p != persist {
                    continue;
                }
            }
            let _ = std::fs::remove_dir_all(&img_dir);
            image.materialize(&img_dir, persist).expect("materialize");
            res.evaluations += 1;
            let (v, tag) = judge_reopen(h, &img_dir.join("m"), &allowed);
            *res.outcomes.entry(format!("crash:{tag}")).or_insert(0) += 1;
            let op_kind = in_flight.map(|i| match &h.ops[i] { MOp::Edit { .. } => "edit", MOp::Rollover => "rollover", MOp::Reopen => "reopen" }).unwrap_or("between");
            res.distinct.insert(format!("crash|{kind}|{op_kind}|{:?}", match persist { Persist::A => "A", Persist::BNone => "B0", Persist::BSome(_) => "Bn" }));
            if let Some((class, detail)) = v {
                res.viols.push(Viol { class, detail, crash: Some((pi as u64, persist)), cut: None });
            } else if tag == "prefix-state" {
                // a recovered manifest must still chain
                if let Some(mut v) = verify_chain(h, &img_dir.join("m")) {
                    v.class = format!("after-crash:{}", v.class);
                    v.crash = Some((pi as u64, persist));
                    res.viols.push(v);
                } else {
                    // and the handle that performs the recovery keeps working: the image once
                    // more, untouched, so that this open is the recovering one; then edit,
                    // rollover, edit through that handle
                    let _ = std::fs::remove_dir_all(&img_dir);
                    image.materialize(&img_dir, persist).expect("materialize");
                    if let Some((class, detail)) = edit_after_recovery(h, &img_dir.join("m"), true) {
                        res.viols.push(Viol { class: format!("after-crash:{class}"), detail, crash: Some((pi as u64, persist)), cut: None });
                    }
                }
            }
        }
    };
    let want_crash = only.as_ref().map(|o| o.0.is_some()).unwrap_or(true);
    if want_crash {
        for (idx, ev) in out.trace.iter().enumerate() {
            while next < n && points[next].0 == idx {
                do_point(next, &image, &mut res);
                next += 1;
            }
            image.step(ev);
        }
        while next < n {
            do_point(next, &image, &mut res);
            next += 1;
        }
    }
    // truncation of the newest file at every length
    let want_cut = only.as_ref().map(|o| o.1.is_some()).unwrap_or(true);
    if want_cut {
        let mpath = root.join("m").join("MANIFEST");
        if let Ok(bytes) = std::fs::read(&mpath) {
            let cut_dir = base.join("cut");
            for len in 0..=bytes.len() {
                if let Some((_, Some(c))) = only.as_ref() {
                    if *c != len as u64 {
                        continue;
                    }
                }
                let _ = std::fs::remove_dir_all(&cut_dir);
                copy_dir(&root.join("m"), &cut_dir).expect("copy");
                std::fs::write(cut_dir.join("MANIFEST"), &bytes[..len]).expect("cut");
                res.evaluations += 1;
                let (v, tag) = judge_reopen(h, &cut_dir, &all);
                *res.outcomes.entry(format!("cut:{tag}")).or_insert(0) += 1;
                let at_line_start = len == 0 || bytes[len - 1] == b'\n';
                res.distinct.insert(format!("cut|{}|{tag}", if at_line_start { "line-boundary" } else { "mid-line" }));
                if let Some((class, detail)) = v {
                    res.viols.push(Viol { class: format!("cut:{class}"), detail: format!("MANIFEST cut to {len} of {} bytes: {detail}", bytes.len()), crash: None, cut: Some(len as u64) });
                } else if tag == "prefix-state" {
                    // The recovered manifest must keep working: one more edit, one more reopen.
                    // (judge_reopen opened and dropped it once already, which is the first reopen.)
                    if let Some((class, detail)) = edit_after_recovery(h, &cut_dir, false) {
                        res.viols.push(Viol { class: format!("cut:{class}"), detail: format!("MANIFEST cut to {len} of {} bytes: {detail}", bytes.len()), crash: None, cut: Some(len as u64) });
                    }
                }
            }
            let _ = std::fs::remove_dir_all(&cut_dir);
        }
    }
    let _ = std::fs::remove_dir_all(&img_dir);
    let _ = out.completed;
    prefix_classes(h, &mut res);
    res
}

/// Violations found with strings of the odd input class carry that class in their name, so that
/// a known finding about such strings can never mask a violation on ordinary strings.
fn prefix_classes(h: &MHist, res: &mut MResult) {
    if h.class != "plain-strings" {
        for v in res.viols.iter_mut() {
            if !v.class.starts_with(&h.class) {
                v.class = format!("{}:{}", h.class, v.class);
            }
        }
    }
}

fn copy_dir(from: &Path, to: &Path) -> std::io::Result<()> {
    std::fs::create_dir_all(to)?;
    for e in std::fs::read_dir(from)? {
        let e = e?;
        if e.file_type()?.is_file() {
            std::fs::copy(e.path(), to.join(e.file_name()))?;
        }
    }
    Ok(())
}

fn shows(h: &MHist, class: &str, seed: u64) -> Option<Viol> {
    let res = examine(h, 0, seed, None);
    res.viols.into_iter().find(|v| v.class == class)
}

pub fn cmd_mani(args: &Args) -> i32 {
    let prop = "C13".to_string();
    let tier = args.str("tier", "quick");
    let seed = args.u64("seed", 1);
    let runs = args.u64("runs", 300);
    let threads = args.u64("threads", 16) as usize;
    let budget_s = args.get("budget-s").map(|s| s.parse::<f64>().unwrap());
    let class = args.str("class", "plain-strings");
    let phase = args.str("phase", &format!("mani-{class}"));
    let out_path = PathBuf::from(args.str("out", "/verif/evidence/parts/mani.json"));
    let replay_dir = PathBuf::from(args.str("replay-dir", "/verif/replays"));
    let known = KnownFindings::load(Path::new(&args.str("known", "/verif/known_findings.json")));
    let start = std::time::Instant::now();
    println!("VERIF_SEED={seed} property=C13 engine=manisim tier={tier} histories={runs} class={class}");
    let class2 = class.clone();
    let results = util::par_map(runs, threads, budget_s, move |r, w| {
        let h = generate(rng::mix(&[seed, rng::str_seed("C13"), r]), &class2);
        let res = examine(&h, w, seed, None);
        (r, h, res)
    });
    let done: Vec<(u64, MHist, MResult)> = results.into_iter().flatten().collect();
    let mut evaluations = 0u64;
    let mut distinct = BTreeSet::new();
    let mut outcomes: BTreeMap<String, u64> = BTreeMap::new();
    let mut samples = Vec::new();
    let mut calls = 0;
    let mut by_class: BTreeMap<String, (u64, usize)> = BTreeMap::new();
    let mut class_counts: BTreeMap<String, u64> = BTreeMap::new();
    for (ri, (r, _h, res)) in done.iter().enumerate() {
        evaluations += res.evaluations;
        calls += res.calls;
        distinct.extend(res.distinct.iter().cloned());
        for (k, v) in res.outcomes.iter() {
            *outcomes.entry(k.clone()).or_insert(0) += v;
        }
        if samples.len() < 3 {
            if let Some(s) = res.sample.clone() {
                samples.push(s);
            }
        }
        for v in res.viols.iter() {
            *class_counts.entry(v.class.clone()).or_insert(0) += 1;
            by_class.entry(v.class.clone()).or_insert((*r, ri));
        }
    }
    let mut exit = 0;
    let mut known_out = Vec::new();
    let mut new_classes = 0;
    let mut reported = 0;
    for (cls, (r, ri)) in by_class.iter() {
        if let Some(f) = known.matches(&prop, cls) {
            println!("KNOWN-FINDING: property=C13 class={} seen={} {}", f.class, class_counts[cls], f.description);
            known_out.push(format!("{cls} (seen {} times)", class_counts[cls]));
            continue;
        }
        new_classes += 1;
        if reported >= 3 {
            continue;
        }
        reported += 1;
        // minimise: drop ops while the class persists
        let mut best = done[*ri].1.clone();
        let t0 = std::time::Instant::now();
        let mut i = 0;
        while i < best.ops.len() && t0.elapsed().as_secs_f64() < 30.0 {
            let mut cand = best.clone();
            cand.ops.remove(i);
            if shows(&cand, cls, seed).is_some() {
                best = cand;
            } else {
                i += 1;
            }
        }
        let v = shows(&best, cls, seed).unwrap_or_else(|| {
            let res = examine(&done[*ri].1, 0, seed, None);
            best = done[*ri].1.clone();
            res.viols.into_iter().find(|v| v.class == *cls).expect("violation vanished")
        });
        let replay = MReplay {
            property: prop.clone(),
            engine: "manisim".to_string(),
            class: cls.clone(),
            detail: v.detail.clone(),
            verif_seed: seed,
            run_index: *r,
            history: best,
            crash: v.crash,
            cut: v.cut,
        };
        std::fs::create_dir_all(&replay_dir).ok();
        let text = serde_json::to_string_pretty(&replay).unwrap();
        let path = replay_dir.join(format!("C13-manisim-{:016x}.json", util::fnv(text.as_bytes(), 0)));
        std::fs::write(&path, text).expect("write replay");
        let exe = std::env::current_exe().unwrap();
        let o = std::process::Command::new(exe).arg("replay").arg(&path).output().expect("spawn replay");
        if o.status.code() != Some(1) {
            eprintln!("HARNESS-ERROR: replay of {} did not reproduce: {}", path.display(), String::from_utf8_lossy(&o.stdout));
            util::cleanup_scratch();
            return 2;
        }
        println!("violation class={cls} history={r} crash={:?} cut={:?}: {}", replay.crash, replay.cut, v.detail.chars().take(400).collect::<String>());
        println!("VIOLATION property=C13 replay={}", path.display());
        exit = 1;
    }
    let wall = start.elapsed().as_secs_f64();
    let mut extra = BTreeMap::new();
    extra.insert("histories".to_string(), json!(done.len()));
    extra.insert("input_class".to_string(), json!(class));
    extra.insert("mutating_calls_recorded".to_string(), json!(calls));
    extra.insert("outcomes".to_string(), json!(outcomes));
    extra.insert("violation_classes_seen".to_string(), json!(class_counts));
    extra.insert("evaluations_per_hour".to_string(), json!((evaluations as f64 / wall * 3600.0) as u64));
    let part = Part {
        property_id: prop,
        engine: "manisim".to_string(),
        phase,
        tier,
        seed,
        evaluations,
        distinct_nontrivial: distinct.len() as u64,
        rule: "one evaluation = one fault-free execution of a seeded edit/rollover/reopen sequence against the real mani crate (reopen must equal the model, Manifest::verify must report nothing), or one crash image of its system-call trace (models A/B0/Bn) reopened, or one truncation length of the final MANIFEST reopened; distinct non-trivial = distinct (next call kind, operation in flight, persistence model) for crash images and (cut position class, outcome) for truncations".to_string(),
        samples,
        wall_s: wall,
        violations: new_classes,
        known_findings: known_out,
        extra,
    };
    part.write(&out_path);
    println!("manisim C13 [{class}]: {} histories, {evaluations} evaluations, {} distinct cases, {wall:.1}s, new violation classes: {new_classes}", done.len(), distinct.len());
    util::cleanup_scratch();
    exit
}

pub fn replay(text: &str, path: &Path) -> i32 {
    let r: MReplay = match serde_json::from_str(text) {
        Ok(r) => r,
        Err(e) => {
            eprintln!("HARNESS-ERROR: cannot parse {}: {e}", path.display());
            return 2;
        }
    };
    match shows(&r.history, &r.class, r.verif_seed) {
        Some(v) => {
            println!("reproduced: class={} crash={:?} cut={:?} {}", v.class, v.crash, v.cut, v.detail.chars().take(400).collect::<String>());
            println!("VIOLATION property={} replay={}", r.property, path.display());
            1
        }
        None => {
            println!("NOT-REPRODUCED: expected class {}", r.class);
            0
        }
    }
}
