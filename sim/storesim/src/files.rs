//! C08 oracle: file presence and unlink discipline.
use crate::exec::Exec;

#[derive(Default)]
pub struct FileWatch {}

pub fn check_presence(_ex: &mut Exec) {}
pub fn check_verifier_unlinks(_ex: &mut Exec, _trace_from: usize) {}
