//! C08 oracle: no needed file is ever removed.
//!
//! (1) Presence: every digest the on-disk manifest lists has a file in sst/.
//! (2) Discipline, decided from the recorded system-call trace in order:
//!     * nothing under sst/ and no log.N in the store root is ever unlinked;
//!     * an SST is renamed into trash/ only while the manifest state of that moment does not
//!       list it;
//!     * a log is renamed into trash/ only when it is empty or the manifest state of that moment
//!       lists the table holding its entries (digest recomputed from the bytes written to it);
//!     * trash entries are unlinked only by a verifier pass, only after the verifier's own
//!       manifest recorded the intent, and only if a store transaction recorded their removal;
//!     * manifest fragments are unlinked only by a verifier pass.
//! (3) After a verifier pass and after a reopen every key reads back unchanged.

use std::collections::{BTreeMap, BTreeSet, HashMap};

use crate::exec::Exec;
use crate::fsx::{self, Ev};

#[derive(Default)]
pub struct FileWatch {
    pos: usize,
    handles: HashMap<u64, String>,
    linebuf: HashMap<u64, Vec<u8>>,
    /// Digests listed by the store manifest at this point of the trace.
    listed: BTreeSet<String>,
    ever_removed: BTreeSet<String>,
    logs_recorded: BTreeSet<String>,
    /// The verifier's intent set (names under trash/).
    intent: BTreeSet<String>,
    in_verify: bool,
    log_bytes: BTreeMap<String, Vec<u8>>,
    pub renames_to_trash: u64,
    pub unlinks_checked: u64,
    /// Files each live reader snapshot (held cursor, by slot) depends on.
    pinned: BTreeMap<usize, BTreeSet<String>>,
    /// Number of the fragment the live store manifest will become (last rollover + 1).
    cur_frag: u64,
    /// For each digest, the fragments in which a transaction (not a roll-up) added it.
    added_in: BTreeMap<String, Vec<u64>>,
    /// The fragment the verifier recorded as the one it is processing / has processed.
    verifier_at: Option<u64>,
}

fn log_digest(bytes: &[u8]) -> Result<Option<String>, String> {
    if bytes.is_empty() {
        return Ok(None);
    }
    let mut it = sst::LogIterator::from_reader(sst::LogOptions::default(), std::io::Cursor::new(bytes.to_vec()))
        .map_err(|e| format!("{e}"))?;
    let mut acc = sst::Setsum::default();
    let mut n = 0;
    loop {
        match it.next() {
            Ok(Some(kv)) => {
                match kv.value {
                    Some(v) => acc.put(kv.key, kv.timestamp, v),
                    None => acc.del(kv.key, kv.timestamp),
                }
                n += 1;
            }
            Ok(None) => break,
            Err(e) => return Err(format!("{e}")),
        }
    }
    if n == 0 {
        Ok(None)
    } else {
        Ok(Some(acc.into_inner().hexdigest()))
    }
}

impl FileWatch {
    pub fn pin(&mut self, slot: usize, digests: BTreeSet<String>) {
        self.pinned.insert(slot, digests);
    }

    pub fn unpin(&mut self, slot: usize) {
        self.pinned.remove(&slot);
    }

    pub fn unpin_all(&mut self) {
        self.pinned.clear();
    }

    /// The state of the watch for a store directory as found on disk (a crash image about to be
    /// reopened): what the current manifest lists, and the bytes of every log in the root.
    pub fn from_disk(root: &std::path::Path) -> Self {
        let mut w = FileWatch::default();
        let mut fragments: Vec<std::path::PathBuf> = std::fs::read_dir(root.join("mani"))
            .map(|d| d.filter_map(|e| e.ok().map(|e| e.path())).collect())
            .unwrap_or_default();
        fragments.retain(|p| p.file_name().map(|n| n.to_string_lossy().starts_with("MANIFEST") && !n.to_string_lossy().ends_with(".tmp")).unwrap_or(false));
        // every fragment starts with the complete state at its creation: the newest one suffices
        // for `listed`; removals and logs recorded are collected over all of them
        fragments.sort_by_key(|p| mani::extract_backup(p).unwrap_or(u64::MAX));
        for (i, f) in fragments.iter().enumerate() {
            if let Ok(text) = std::fs::read(f) {
                if i + 1 == fragments.len() {
                    w.listed.clear();
                }
                for line in String::from_utf8_lossy(&text).lines() {
                    w.manifest_line("store", line);
                }
            }
        }
        if let Ok(text) = std::fs::read(root.join("verify").join("MANIFEST")) {
            for line in String::from_utf8_lossy(&text).lines() {
                w.manifest_line("verify", line);
            }
        }
        if let Ok(d) = std::fs::read_dir(root) {
            for e in d.flatten() {
                let name = e.file_name().to_string_lossy().to_string();
                if name.starts_with("log.") {
                    if let Ok(bytes) = std::fs::read(e.path()) {
                        w.log_bytes.insert(name, bytes);
                    }
                }
            }
        }
        w
    }

    fn manifest_line(&mut self, which: &str, line: &str) {
        // lines are "<8 hex crc><action><payload>" or the separator
        if line.len() <= 8 || line == "--------" {
            return;
        }
        let action = line.as_bytes()[8] as char;
        let payload = &line[9..];
        match (which, action) {
            ("store", '+') => {
                self.listed.insert(payload.to_string());
                self.added_in.entry(payload.to_string()).or_default().push(self.cur_frag);
            }
            ("store", '-') => {
                self.listed.remove(payload);
                self.ever_removed.insert(payload.to_string());
            }
            ("store", 'L') => {
                self.logs_recorded.insert(format!("log.{payload}"));
            }
            ("verify", '+') => {
                self.intent.insert(payload.to_string());
            }
            ("verify", 'M') => {
                self.verifier_at = payload.strip_prefix("MANIFEST.").and_then(|n| n.parse().ok());
            }
            ("verify", '-') => {
                self.intent.remove(payload);
            }
            _ => {}
        }
    }
}

/// Process trace events recorded since the last call.  Returns the first violation, if any.
fn scan_trace(ex: &mut Exec) -> Option<(String, String)> {
    let events = fsx::trace_since(ex.c08.pos);
    let w = &mut ex.c08;
    w.pos += events.len();
    for ev in events.iter() {
        match ev {
            Ev::Mark(m) => {
                if m.contains(" verify begin") {
                    w.in_verify = true;
                } else if m.contains(" verify ") {
                    w.in_verify = false;
                }
            }
            Ev::Open { h, path, created, trunc } => {
                w.handles.insert(*h, path.clone());
                w.linebuf.remove(h);
                if (*created || *trunc) && path.starts_with("log.") {
                    w.log_bytes.insert(path.clone(), Vec::new());
                }
                if *trunc && path == "mani/MANIFEST" {
                    return Some(("manifest-truncated".into(), "mani/MANIFEST opened with O_TRUNC".into()));
                }
            }
            Ev::Write { h, off: _, data } => {
                let path = match w.handles.get(h) {
                    Some(p) => p.clone(),
                    None => continue,
                };
                if path.starts_with("log.") && !path.contains('/') {
                    w.log_bytes.entry(path.clone()).or_default().extend_from_slice(data);
                }
                let which = if path == "mani/MANIFEST" {
                    "store"
                } else if path == "verify/MANIFEST" {
                    "verify"
                } else {
                    continue;
                };
                let buf = w.linebuf.entry(*h).or_default();
                buf.extend_from_slice(data);
                let mut lines = Vec::new();
                while let Some(pos) = buf.iter().position(|b| *b == b'\n') {
                    let line: Vec<u8> = buf.drain(..=pos).collect();
                    lines.push(String::from_utf8_lossy(&line[..line.len() - 1]).to_string());
                }
                for l in lines {
                    w.manifest_line(which, &l);
                }
            }
            Ev::Link { old, new } if old == "mani/MANIFEST" => {
                if let Some(n) = new.strip_prefix("mani/MANIFEST.").and_then(|n| n.parse::<u64>().ok()) {
                    w.cur_frag = n + 1;
                }
            }
            Ev::Rename { old, new } => {
                if new == "mani/MANIFEST" && old == "mani/MANIFEST.tmp" {
                    // roll-up replaces the file; state unchanged
                    continue;
                }
                if new == "verify/MANIFEST" {
                    continue;
                }
                if let Some(name) = new.strip_prefix("trash/") {
                    w.renames_to_trash += 1;
                    if let Some(digest) = name.strip_suffix(".sst") {
                        if old.starts_with("sst/") && w.pinned.values().any(|p| p.contains(digest)) {
                            return Some((
                                "sst-moved-to-trash-while-a-live-cursor-reads-that-version".into(),
                                format!("rename {old} -> {new} while a held cursor's snapshot contains {digest} ({})", if w.in_verify { "during a verifier pass" } else { "by the store" }),
                            ));
                        }
                        if old.starts_with("sst/") && w.listed.contains(digest) {
                            return Some((
                                "sst-moved-to-trash-while-manifest-lists-it".into(),
                                format!("rename {old} -> {new} while the manifest lists {digest}"),
                            ));
                        }
                    } else if name.starts_with("log.") {
                        let bytes = w.log_bytes.get(old).cloned().unwrap_or_default();
                        match log_digest(&bytes) {
                            Ok(None) => {}
                            Ok(Some(d)) => {
                                if !w.listed.contains(&d) {
                                    return Some((
                                        "log-moved-to-trash-before-its-table-is-listed".into(),
                                        format!("rename {old} -> {new}: the log holds entries with digest {d}, which the manifest does not list"),
                                    ));
                                }
                            }
                            Err(e) => {
                                return Some((
                                    "log-unreadable-at-trash-time".into(),
                                    format!("rename {old} -> {new}: {e}"),
                                ));
                            }
                        }
                    }
                }
            }
            Ev::Unlink { path } => {
                w.unlinks_checked += 1;
                if path.starts_with("sst/") {
                    return Some(("unlink-under-sst".into(), format!("unlink {path}")));
                }
                if path.starts_with("log.") && !path.contains('/') {
                    return Some(("unlink-of-live-log".into(), format!("unlink {path}")));
                }
                if let Some(name) = path.strip_prefix("trash/") {
                    if !w.in_verify {
                        return Some((
                            "trash-entry-unlinked-outside-verifier".into(),
                            format!("unlink {path} outside a verifier pass"),
                        ));
                    }
                    if !w.intent.contains(name) {
                        return Some((
                            "verifier-unlinked-without-durable-intent".into(),
                            format!("unlink {path} but verify/MANIFEST does not record the intent"),
                        ));
                    }
                    if let Some(digest) = name.strip_suffix(".sst") {
                        // "whose fragment it has verified": a transaction after the fragment the
                        // verifier is at created a table with this digest again, so the file in
                        // the trash is (or will be) that table's, whose removal is not verified
                        if let (Some(at), Some(adds)) = (w.verifier_at, w.added_in.get(digest)) {
                            if w.cur_frag > 0 && adds.iter().any(|f| *f > at) {
                                return Some((
                                    "verifier-unlinked-table-a-later-unverified-transaction-created-again".into(),
                                    format!("unlink {path} while processing fragment {at}: a transaction in fragment {:?} adds {digest} again", adds.iter().filter(|f| **f > at).collect::<Vec<_>>()),
                                ));
                            }
                        }
                        if !w.ever_removed.contains(digest) {
                            return Some((
                                "verifier-unlinked-file-no-transaction-removed".into(),
                                format!("unlink {path}: no store transaction removed {digest}"),
                            ));
                        }
                        if w.listed.contains(digest) && !ex_root_has_sst(&ex.root, digest) {
                            return Some((
                                "verifier-unlinked-last-copy-of-listed-file".into(),
                                format!("unlink {path}: the manifest lists {digest} and sst/ has no copy"),
                            ));
                        }
                    } else if name.starts_with("log.") && !w.logs_recorded.contains(name) {
                        return Some((
                            "verifier-unlinked-log-no-transaction-recorded".into(),
                            format!("unlink {path}: no store transaction recorded {name}"),
                        ));
                    }
                }
                if path.starts_with("mani/MANIFEST.") && path != "mani/MANIFEST.tmp" && !w.in_verify {
                    return Some((
                        "manifest-fragment-unlinked-outside-verifier".into(),
                        format!("unlink {path}"),
                    ));
                }
            }
            _ => {}
        }
    }
    None
}

fn ex_root_has_sst(root: &std::path::Path, digest: &str) -> bool {
    root.join("sst").join(format!("{digest}.sst")).is_file()
}

pub fn check_presence(ex: &mut Exec) {
    if let Some((class, detail)) = scan_trace(ex) {
        ex.violate("C08", class, detail);
        return;
    }
    // presence of every listed file, from the on-disk manifest
    let frags = crate::books::list_fragments(&ex.root);
    if let Some((_, path)) = frags.last() {
        let mut state: BTreeSet<String> = BTreeSet::new();
        if let Ok(iter) = mani::ManifestIterator::open(path) {
            for edit in iter.flatten() {
                for r in edit.rmed() {
                    state.remove(r);
                }
                for a in edit.added() {
                    state.insert(a.clone());
                }
            }
        }
        for hex in state.iter() {
            if !ex_root_has_sst(&ex.root, hex) {
                ex.violate(
                    "C08",
                    "listed-file-missing",
                    format!("the manifest lists {hex} but sst/{hex}.sst does not exist"),
                );
                return;
            }
        }
        ex.probes.add("c08_listed_files_present", state.len() as u64);
    }
}

/// The discipline rules over whatever has been recorded since the last call (used for the
/// recovery of a crash image, whose trace starts at the reopen).
pub fn check_recorded(ex: &mut Exec) -> Option<(String, String)> {
    scan_trace(ex)
}

pub fn check_verifier_unlinks(ex: &mut Exec, _trace_from: usize) {
    let before = ex.c08.unlinks_checked;
    if let Some((class, detail)) = scan_trace(ex) {
        ex.violate("C08", class, detail);
        return;
    }
    if ex.c08.unlinks_checked > before {
        ex.probes.hit("c08_verifier_pass_unlinked_files");
    }
}

/// (3) contents unchanged after a verifier pass / reopen.
pub fn check_contents(ex: &mut Exec, after: &str) {
    if ex.h.profile == "tree-verify" {
        // this profile re-ingests tables with old timestamps (Op::Reingest); its model of the
        // contents is by operation order, not by timestamp, so reads are not judged here
        ex.probes.hit("c08_contents_check_not_applicable_to_reingest_profile");
        return;
    }
    if ex.level_overlap.is_some() {
        // Reads are already unsound for a reason that has nothing to do with file removal
        // (recovery misordered two files, known finding F-C01-1); C01 reports that.
        ex.probes.hit("c08_contents_check_skipped_tree_misordered");
        return;
    }
    let keys: Vec<Vec<u8>> = ex.h.keys.iter().map(|k| k.0.clone()).collect();
    for key in keys.iter() {
        let got = match ex.store.as_ref().map(|s| s.load(key)) {
            Some(Ok((v, _))) => v,
            Some(Err(e)) => {
                ex.violate(
                    "C08",
                    format!("read-error-after-{after}:{}", crate::exec::err_class(&e)),
                    format!("load {} after {after}: {e}", crate::exec::fmt_key(key)),
                );
                return;
            }
            None => return,
        };
        let want = ex.model.get(key).cloned().flatten();
        if got != want {
            ex.violate(
                "C08",
                format!("contents-changed-after-{after}"),
                format!(
                    "load {} = {}, model {}",
                    crate::exec::fmt_key(key),
                    crate::exec::fmt_val(&got),
                    crate::exec::fmt_val(&want)
                ),
            );
            return;
        }
    }
}
