//! Wing-Gong style linearizability check against a sequential map in which a batch is one
//! atomic multi-key write and a scan is one atomic multi-key read.

use std::collections::HashSet;

#[derive(Clone, Debug, PartialEq, Eq)]
pub enum LOp {
    /// atomic multi-key write: (key index, Some(value id) | None = delete)
    Write(Vec<(usize, Option<u64>)>),
    /// point read and what it returned
    Get(usize, Option<u64>),
    /// snapshot read of every key: what it returned per key
    Scan(Vec<Option<u64>>),
}

#[derive(Clone, Debug)]
pub struct Event {
    pub thread: usize,
    pub inv: u64,
    pub ret: u64,
    pub op: LOp,
}

fn search(events: &[Event], done: u32, state: &mut Vec<Option<u64>>, memo: &mut HashSet<(u32, Vec<Option<u64>>)>) -> bool {
    let n = events.len();
    if done == (1u32 << n) - 1 {
        return true;
    }
    if !memo.insert((done, state.clone())) {
        return false;
    }
    let min_ret = (0..n)
        .filter(|i| done & (1 << i) == 0)
        .map(|i| events[i].ret)
        .min()
        .unwrap();
    for i in 0..n {
        if done & (1 << i) != 0 || events[i].inv > min_ret {
            continue;
        }
        match &events[i].op {
            LOp::Write(ws) => {
                let saved: Vec<(usize, Option<u64>)> = ws.iter().map(|(k, _)| (*k, state[*k])).collect();
                for (k, v) in ws {
                    state[*k] = *v;
                }
                if search(events, done | (1 << i), state, memo) {
                    return true;
                }
                for (k, v) in saved.into_iter().rev() {
                    state[k] = v;
                }
            }
            LOp::Get(k, v) => {
                if state[*k] == *v && search(events, done | (1 << i), state, memo) {
                    return true;
                }
            }
            LOp::Scan(vs) => {
                if *state == *vs && search(events, done | (1 << i), state, memo) {
                    return true;
                }
            }
        }
    }
    false
}

/// True iff the history has a linearization.  At most 31 events.
pub fn linearizable(events: &[Event], nkeys: usize) -> bool {
    assert!(events.len() < 32);
    let mut state = vec![None; nkeys];
    let mut memo = HashSet::new();
    search(events, 0, &mut state, &mut memo)
}

/// Values read must have been written by someone (or be "absent").
pub fn reads_only_written_values(events: &[Event]) -> Option<String> {
    let mut written: HashSet<(usize, u64)> = HashSet::new();
    for e in events {
        if let LOp::Write(ws) = &e.op {
            for (k, v) in ws {
                if let Some(v) = v {
                    written.insert((*k, *v));
                }
            }
        }
    }
    for e in events {
        match &e.op {
            LOp::Get(k, Some(v)) if !written.contains(&(*k, *v)) => {
                return Some(format!("get of key {k} returned value id {v} that nobody wrote"));
            }
            LOp::Scan(vs) => {
                for (k, v) in vs.iter().enumerate() {
                    if let Some(v) = v {
                        if !written.contains(&(k, *v)) {
                            return Some(format!("scan returned value id {v} for key {k} that nobody wrote"));
                        }
                    }
                }
            }
            _ => {}
        }
    }
    None
}
