//! Data-structure scenarios: lock-free skiplist and list (C17); coalescing queue, wait list and
//! LRU cache (C18).  Every scenario draws its parameters from the execution seed.

use std::collections::{BTreeSet, VecDeque};
use std::sync::atomic::{AtomicU64, Ordering};
use std::sync::{Arc, Mutex as StdMutex};

use shuttle::thread;

use crate::rng::{self, Rng};
use crate::{violation, Slot};

fn finish(slot: &Slot, events: &StdMutex<Vec<u64>>, nontrivial: bool, probes: Vec<(&str, u64)>, sample: serde_json::Value) {
    let ev = events.lock().unwrap();
    let mut h = 0u64;
    for e in ev.iter() {
        h = rng::mix(&[h, *e]);
    }
    let mut r = slot.lock().unwrap();
    r.order_hash = h;
    r.nontrivial = nontrivial;
    r.steps = ev.len() as u64;
    for (k, v) in probes {
        *r.probes.entry(k.to_string()).or_insert(0) += v;
    }
    r.sample = Some(sample);
}

fn bit(mask: u64, k: u64) -> bool {
    mask & (1 << k) != 0
}

////////////////////////////////////////////// skiplist ////////////////////////////////////////////

fn key_sets(rng: &mut Rng, threads: usize) -> Vec<Vec<u64>> {
    // distinct keys in 0..24; patterns that collide on neighbouring positions
    let per: usize = rng.range(1, 4) as usize;
    let total = threads * per;
    let base = rng.range(0, (24 - total) as u64);
    let mut all: Vec<u64> = (0..total as u64).map(|i| base + i).collect();
    match rng.below(4) {
        0 => {} // ascending, dealt round-robin => neighbours go to different threads
        1 => all.reverse(),
        2 => {
            // random order
            for i in (1..all.len()).rev() {
                let j = rng.usize_below(i + 1);
                all.swap(i, j);
            }
        }
        _ => {
            // sparse random keys
            let mut s = BTreeSet::new();
            while s.len() < total {
                s.insert(rng.below(24));
            }
            all = s.into_iter().collect();
            for i in (1..all.len()).rev() {
                let j = rng.usize_below(i + 1);
                all.swap(i, j);
            }
        }
    }
    let mut out = vec![Vec::new(); threads];
    if rng.chance(1, 2) {
        for (i, k) in all.into_iter().enumerate() {
            out[i % threads].push(k);
        }
    } else {
        for (i, k) in all.into_iter().enumerate() {
            out[i / per].push(k);
        }
    }
    out
}

fn skiplist_h<const H: usize>(mut rng: Rng, slot: &Slot) {
    use skipfree::SkipList;
    let list: Arc<SkipList<u64, u64, H>> = Arc::new(SkipList::default());
    let n_ins = rng.range(1, 3) as usize;
    let n_rd = rng.range(1, 2) as usize;
    let keys = key_sets(&mut rng, n_ins);
    let started = Arc::new(AtomicU64::new(0));
    let completed = Arc::new(AtomicU64::new(0));
    let events: Arc<StdMutex<Vec<u64>>> = Arc::new(StdMutex::new(Vec::new()));
    let overlapped = Arc::new(AtomicU64::new(0));
    let all: BTreeSet<u64> = keys.iter().flatten().copied().collect();
    let mut handles = Vec::new();
    for (t, ks) in keys.iter().cloned().enumerate() {
        let list = Arc::clone(&list);
        let started = Arc::clone(&started);
        let completed = Arc::clone(&completed);
        let events = Arc::clone(&events);
        handles.push(thread::spawn(move || {
            for k in ks {
                started.fetch_or(1 << k, Ordering::SeqCst);
                events.lock().unwrap().push((t as u64) << 16 | k << 1);
                list.insert(k, k * 10);
                completed.fetch_or(1 << k, Ordering::SeqCst);
                events.lock().unwrap().push((t as u64) << 16 | k << 1 | 1);
            }
        }));
    }
    for r in 0..n_rd {
        let list = Arc::clone(&list);
        let started = Arc::clone(&started);
        let completed = Arc::clone(&completed);
        let events = Arc::clone(&events);
        let overlapped = Arc::clone(&overlapped);
        let mut rng = rng.fork();
        handles.push(thread::spawn(move || {
            let nobs = rng.range(2, 5);
            for _ in 0..nobs {
                let kind = rng.below(4);
                let c0 = completed.load(Ordering::SeqCst);
                match kind {
                    0 => {
                        let k = rng.below(24);
                        let found = list.contains(&k);
                        let s1 = started.load(Ordering::SeqCst);
                        if bit(c0, k) && !found {
                            violation("contains-missed-completed-insert", format!("key {k} inserted (completed set {c0:#x}) but contains() = false"));
                        }
                        if !bit(s1, k) && found {
                            violation("contains-found-key-nobody-inserted", format!("key {k} found but no insert of it has started (started {s1:#x})"));
                        }
                        if c0 != s1 {
                            overlapped.fetch_add(1, Ordering::SeqCst);
                        }
                        events.lock().unwrap().push(0x100_0000 | (r as u64) << 16 | k << 1 | found as u64);
                    }
                    1 => {
                        let mut it = list.iter();
                        it.seek_to_first();
                        let mut seen: Vec<u64> = Vec::new();
                        while it.is_valid() {
                            let k = *it.key();
                            if *it.value() != k * 10 {
                                violation("iteration-wrong-value", format!("key {k} has value {}", it.value()));
                            }
                            seen.push(k);
                            it.next();
                            if seen.len() > 100 {
                                violation("iteration-does-not-terminate", format!("{seen:?}"));
                            }
                        }
                        let s1 = started.load(Ordering::SeqCst);
                        for w in seen.windows(2) {
                            if w[0] >= w[1] {
                                violation("iteration-not-strictly-increasing", format!("{seen:?}"));
                            }
                        }
                        for k in 0..24 {
                            if bit(c0, k) && !seen.contains(&k) {
                                violation("iteration-missed-completed-insert", format!("key {k} completed before the iteration began; saw {seen:?}"));
                            }
                        }
                        for k in seen.iter() {
                            if !bit(s1, *k) {
                                violation("iteration-found-key-nobody-inserted", format!("key {k}; saw {seen:?}"));
                            }
                        }
                        if c0 != s1 {
                            overlapped.fetch_add(1, Ordering::SeqCst);
                        }
                        let mut h = 0u64;
                        for k in seen.iter() {
                            h |= 1 << k;
                        }
                        events.lock().unwrap().push(0x200_0000 | (r as u64) << 32 | (h & 0xffffff));
                    }
                    2 => {
                        // seek then a few next()
                        let k = rng.below(25);
                        let mut it = list.iter();
                        it.seek(&k);
                        let mut cur = if it.is_valid() { Some(*it.key()) } else { None };
                        let s1 = started.load(Ordering::SeqCst);
                        match cur {
                            Some(kp) => {
                                if kp < k || !bit(s1, kp) {
                                    violation("seek-landed-on-wrong-key", format!("seek({k}) -> {kp}, started {s1:#x}"));
                                }
                                for m in k..kp {
                                    if bit(c0, m) {
                                        violation("seek-skipped-completed-insert", format!("seek({k}) -> {kp} but {m} was inserted before"));
                                    }
                                }
                            }
                            None => {
                                for m in k..24 {
                                    if bit(c0, m) {
                                        violation("seek-skipped-completed-insert", format!("seek({k}) -> end but {m} was inserted before"));
                                    }
                                }
                            }
                        }
                        for _ in 0..rng.range(1, 3) {
                            let c1 = completed.load(Ordering::SeqCst);
                            let from = match cur {
                                Some(x) => x,
                                None => break,
                            };
                            it.next();
                            let nxt = if it.is_valid() { Some(*it.key()) } else { None };
                            let s2 = started.load(Ordering::SeqCst);
                            let hi = nxt.unwrap_or(24);
                            if let Some(n) = nxt {
                                if n <= from || !bit(s2, n) {
                                    violation("next-moved-to-wrong-key", format!("next from {from} -> {n}"));
                                }
                            }
                            for m in from + 1..hi {
                                if bit(c1, m) {
                                    violation("next-skipped-completed-insert", format!("next from {from} -> {nxt:?} but {m} was inserted before"));
                                }
                            }
                            cur = nxt;
                        }
                        if c0 != started.load(Ordering::SeqCst) {
                            overlapped.fetch_add(1, Ordering::SeqCst);
                        }
                        events.lock().unwrap().push(0x300_0000 | (r as u64) << 16 | k << 8 | cur.unwrap_or(63));
                    }
                    _ => {
                        // position at the end, walk backwards
                        let mut it = list.iter();
                        it.seek_to_last();
                        let mut upper = 24u64;
                        let mut seen = Vec::new();
                        for _ in 0..rng.range(1, 4) {
                            let c1 = completed.load(Ordering::SeqCst);
                            it.prev();
                            let p = if it.is_valid() { Some(*it.key()) } else { None };
                            let s2 = started.load(Ordering::SeqCst);
                            let lo = p.map(|x| x + 1).unwrap_or(0);
                            if let Some(x) = p {
                                if x >= upper || !bit(s2, x) {
                                    violation("prev-moved-to-wrong-key", format!("prev below {upper} -> {x}"));
                                }
                            }
                            for m in lo..upper {
                                if bit(c1, m) {
                                    violation("prev-skipped-completed-insert", format!("prev below {upper} -> {p:?} but {m} was inserted before"));
                                }
                            }
                            match p {
                                Some(x) => {
                                    seen.push(x);
                                    upper = x;
                                }
                                None => break,
                            }
                        }
                        if c0 != started.load(Ordering::SeqCst) {
                            overlapped.fetch_add(1, Ordering::SeqCst);
                        }
                        events.lock().unwrap().push(0x400_0000 | (r as u64) << 16 | seen.len() as u64);
                    }
                }
            }
        }));
    }
    for h in handles {
        h.join().unwrap();
    }
    // after everything joined: exactly the inserted set
    let mut it = list.iter();
    it.seek_to_first();
    let mut fin = Vec::new();
    while it.is_valid() {
        fin.push(*it.key());
        it.next();
    }
    let want: Vec<u64> = all.iter().copied().collect();
    if fin != want {
        violation("final-iteration-differs-from-inserted-set", format!("got {fin:?}, inserted {want:?}"));
    }
    finish(
        slot,
        &events,
        overlapped.load(Ordering::SeqCst) > 0,
        vec![("observations_overlapping_an_insert", overlapped.load(Ordering::SeqCst)), ("skiplist_executions", 1)],
        serde_json::json!({"max_height": H, "inserters": keys, "readers": n_rd}),
    );
}

pub fn skiplist(seed: u64, slot: &Slot) {
    let mut rng = Rng::new(seed);
    match rng.below(3) {
        0 => skiplist_h::<2>(rng, slot),
        1 => skiplist_h::<4>(rng, slot),
        _ => skiplist_h::<12>(rng, slot),
    }
}

/// An iterator created before its list is dropped stays usable (the crate documents this).
pub fn skiplist_iter_outlives(seed: u64, slot: &Slot) {
    use skipfree::SkipList;
    let mut rng = Rng::new(seed);
    let list: SkipList<u64, u64> = SkipList::default();
    let n = rng.range(1, 6);
    for k in 0..n {
        list.insert(k * 2, k);
    }
    let mut it = list.iter();
    match rng.below(3) {
        0 => it.seek_to_first(),
        1 => it.seek(&rng.below(n * 2)),
        _ => {
            it.seek_to_last();
            it.prev();
        }
    }
    drop(list);
    let events = StdMutex::new(Vec::new());
    // every use below dereferences nodes; the live-node registry turns a dangling one into a panic
    let mut seen = 0;
    while it.is_valid() && seen < 20 {
        let _ = *it.key() + *it.value();
        events.lock().unwrap().push(*it.key());
        it.next();
        seen += 1;
    }
    it.seek_to_last();
    it.prev();
    if it.is_valid() {
        events.lock().unwrap().push(*it.key());
    }
    finish(slot, &events, true, vec![("iterator_used_after_list_dropped", 1)], serde_json::json!({"keys": n}));
}

////////////////////////////////////////////// listfree ////////////////////////////////////////////

pub fn listfree(seed: u64, slot: &Slot) {
    use listfree::List;
    let mut rng = Rng::new(seed);
    let list: Arc<List<u64>> = Arc::new(List::default());
    let n_w = rng.range(1, 3) as usize;
    let per = rng.range(1, 4);
    let n_rd = rng.range(1, 2) as usize;
    let started = Arc::new(AtomicU64::new(0));
    let completed = Arc::new(AtomicU64::new(0));
    let events: Arc<StdMutex<Vec<u64>>> = Arc::new(StdMutex::new(Vec::new()));
    let overlapped = Arc::new(AtomicU64::new(0));
    let mut handles = Vec::new();
    for t in 0..n_w {
        let list = Arc::clone(&list);
        let started = Arc::clone(&started);
        let completed = Arc::clone(&completed);
        let events = Arc::clone(&events);
        handles.push(thread::spawn(move || {
            for s in 0..per {
                let id = t as u64 * 8 + s;
                started.fetch_or(1 << id, Ordering::SeqCst);
                list.prepend(id);
                completed.fetch_or(1 << id, Ordering::SeqCst);
                events.lock().unwrap().push(id);
            }
        }));
    }
    for r in 0..n_rd {
        let list = Arc::clone(&list);
        let started = Arc::clone(&started);
        let completed = Arc::clone(&completed);
        let events = Arc::clone(&events);
        let overlapped = Arc::clone(&overlapped);
        let nobs = rng.range(1, 4);
        handles.push(thread::spawn(move || {
            for _ in 0..nobs {
                let c0 = completed.load(Ordering::SeqCst);
                let seen: Vec<u64> = list.iter().copied().collect();
                let s1 = started.load(Ordering::SeqCst);
                let set: BTreeSet<u64> = seen.iter().copied().collect();
                if set.len() != seen.len() {
                    violation("list-element-seen-twice", format!("{seen:?}"));
                }
                for id in 0..32 {
                    if bit(c0, id) && !set.contains(&id) {
                        violation("list-iteration-missed-completed-prepend", format!("element {id}; saw {seen:?}"));
                    }
                }
                for id in seen.iter() {
                    if !bit(s1, *id) {
                        violation("list-iteration-found-element-nobody-prepended", format!("element {id}"));
                    }
                }
                // newest first: within one prepender, later sequence numbers come first
                for t in 0..4u64 {
                    let mine: Vec<u64> = seen.iter().copied().filter(|id| id / 8 == t).collect();
                    for w in mine.windows(2) {
                        if w[0] < w[1] {
                            violation("list-not-newest-first", format!("thread {t}: {mine:?}"));
                        }
                    }
                }
                if c0 != s1 {
                    overlapped.fetch_add(1, Ordering::SeqCst);
                }
                let mut h = 0u64;
                for id in seen.iter() {
                    h |= 1 << id;
                }
                events.lock().unwrap().push(0x8000_0000_0000 | (r as u64) << 40 | h);
            }
        }));
    }
    for h in handles {
        h.join().unwrap();
    }
    let fin: BTreeSet<u64> = list.iter().copied().collect();
    let want: BTreeSet<u64> = (0..n_w as u64).flat_map(|t| (0..per).map(move |s| t * 8 + s)).collect();
    if fin != want || list.iter().count() != want.len() {
        violation("list-final-iteration-differs", format!("got {fin:?}, prepended {want:?}"));
    }
    finish(
        slot,
        &events,
        overlapped.load(Ordering::SeqCst) > 0,
        vec![("observations_overlapping_a_prepend", overlapped.load(Ordering::SeqCst)), ("listfree_executions", 1)],
        serde_json::json!({"prependers": n_w, "per_thread": per, "readers": n_rd}),
    );
}

/////////////////////////////////////// work coalescing queue //////////////////////////////////////

#[derive(Clone, Copy, Debug)]
enum Mode {
    AcceptAll,
    AtMost(usize),
    RefuseAll,
    /// refusal depends on the input: a batch may hold inputs whose "sizes" (`size_of`) sum
    /// to at most this many, so a later small input would fit where an earlier big one did not
    /// (what a byte-limited core such as the log's write core does)
    SizeLimit(u64),
}

/// The "size" of an input for the size-limited core: 1..=6, well mixed over the inputs.
fn size_of(input: u64) -> u64 {
    (input.wrapping_mul(0x9e3779b97f4a7c15) >> 40) % 6 + 1
}

struct Core {
    mode: Mode,
    /// scheduler yields inside `work`: a busy leader, so that callers pile up behind it
    slow: u32,
    /// outputs the iterator yields beyond one per input (a core is free to return a longer
    /// iterator, e.g. `repeat(result)`; the queue must hand out one output per batched input)
    surplus: usize,
    seen: Vec<u64>,
    batches: Vec<usize>,
}

impl sync42::work_coalescing_queue::WorkCoalescingCore<u64, u64> for Core {
    type InputAccumulator = Vec<u64>;
    type OutputIterator<'a> = std::vec::IntoIter<u64>;

    fn can_batch(&self, acc: &Vec<u64>, other: &u64) -> bool {
        match self.mode {
            Mode::AcceptAll => true,
            Mode::AtMost(k) => acc.len() < k,
            Mode::RefuseAll => false,
            Mode::SizeLimit(limit) => acc.iter().map(|i| size_of(*i)).sum::<u64>() + size_of(*other) <= limit,
        }
    }

    fn batch(&mut self, mut acc: Vec<u64>, other: u64) -> Vec<u64> {
        acc.push(other);
        acc
    }

    fn work(&mut self, taken: usize, acc: Vec<u64>) -> Self::OutputIterator<'_> {
        if taken != acc.len() {
            violation("queue-taken-differs-from-batched-inputs", format!("taken {taken}, batched {acc:?}"));
        }
        self.batches.push(acc.len());
        for _ in 0..self.slow {
            thread::sleep(std::time::Duration::ZERO);
        }
        let mut out = Vec::new();
        for i in acc {
            self.seen.push(i);
            out.push(i * 3 + 1);
        }
        for j in 0..self.surplus {
            out.push(u64::MAX - j as u64);
        }
        out.into_iter()
    }
}

pub fn wcq(seed: u64, slot: &Slot) {
    use sync42::work_coalescing_queue::WorkCoalescingQueue;
    let mut rng = Rng::new(seed);
    let mode = match rng.below(4) {
        0 => Mode::AcceptAll,
        1 => Mode::AtMost(rng.range(1, 3) as usize),
        2 => Mode::SizeLimit(rng.range(3, 9)),
        _ => Mode::RefuseAll,
    };
    let q = Arc::new(WorkCoalescingQueue::new(Core {
        mode,
        slow: *rng.pick(&[0u32, 0, 30, 200]),
        surplus: 0,
        seen: Vec::new(),
        batches: Vec::new(),
    }));
    let n_t = rng.range(2, 6) as usize;
    let per = rng.range(1, 3);
    // drawn from a stream of its own, so that the other draws stay what they were
    let surplus = *Rng::new(crate::rng::mix(&[seed, 0x73757270])).pick(&[0usize, 0, 1, 3]);
    q.get_core().surplus = surplus;
    let clock = Arc::new(AtomicU64::new(0));
    let stamps: Arc<StdMutex<Vec<(u64, u64, u64)>>> = Arc::new(StdMutex::new(Vec::new()));
    let events: Arc<StdMutex<Vec<u64>>> = Arc::new(StdMutex::new(Vec::new()));
    let mut handles = Vec::new();
    for t in 0..n_t {
        let q = Arc::clone(&q);
        let clock = Arc::clone(&clock);
        let stamps = Arc::clone(&stamps);
        let events = Arc::clone(&events);
        handles.push(thread::spawn(move || {
            for s in 0..per {
                let input = t as u64 * 100 + s;
                let inv = clock.fetch_add(1, Ordering::SeqCst);
                let out = q.do_work(input);
                let ret = clock.fetch_add(1, Ordering::SeqCst);
                if out != input * 3 + 1 {
                    violation("queue-returned-output-of-another-input", format!("do_work({input}) = {out}, expected {}", input * 3 + 1));
                }
                stamps.lock().unwrap().push((input, inv, ret));
                events.lock().unwrap().push(input);
            }
        }));
    }
    for h in handles {
        h.join().unwrap();
    }
    let core = q.get_core();
    let mut sorted = core.seen.clone();
    sorted.sort();
    let mut want: Vec<u64> = (0..n_t as u64).flat_map(|t| (0..per).map(move |s| t * 100 + s)).collect();
    want.sort();
    if sorted != want {
        violation("queue-core-did-not-see-each-input-exactly-once", format!("core saw {:?}, submitted {want:?}", core.seen));
    }
    let pos = |i: u64| core.seen.iter().position(|x| *x == i).unwrap();
    let st = stamps.lock().unwrap();
    for a in st.iter() {
        for b in st.iter() {
            if a.2 < b.1 && pos(a.0) > pos(b.0) {
                violation(
                    "queue-processed-out-of-entry-order",
                    format!("call {} returned before call {} was made, yet the core processed {} first; order {:?}", a.0, b.0, b.0, core.seen),
                );
            }
        }
    }
    let coalesced = core.batches.iter().any(|b| *b > 1);
    if let Mode::RefuseAll = mode {
        if coalesced {
            violation("queue-batched-although-core-refused", format!("{:?}", core.batches));
        }
    }
    if let Mode::SizeLimit(limit) = mode {
        // a batch of more than one input never exceeds the limit (a lone input may)
        let mut at = 0;
        for b in core.batches.iter() {
            let size: u64 = core.seen[at..at + *b].iter().map(|i| size_of(*i)).sum();
            if *b > 1 && size > limit {
                violation("queue-batched-more-than-core-allowed", format!("size limit {limit}, a batch of {b} inputs sums to {size}"));
            }
            at += *b;
        }
    }
    if let Mode::AtMost(k) = mode {
        if core.batches.iter().any(|b| *b > k) {
            violation("queue-batched-more-than-core-allowed", format!("limit {k}, batches {:?}", core.batches));
        }
    }
    let batches = core.batches.clone();
    drop(core);
    events.lock().unwrap().extend(batches.iter().map(|b| 0x1000 + *b as u64));
    finish(
        slot,
        &events,
        coalesced || n_t > 1,
        vec![("queue_batches_of_more_than_one", batches.iter().filter(|b| **b > 1).count() as u64), ("queue_executions", 1)],
        serde_json::json!({"mode": format!("{mode:?}"), "threads": n_t, "calls_per_thread": per, "batches": batches, "surplus_outputs": surplus}),
    );
}

////////////////////////////////////////////// wait list ///////////////////////////////////////////

pub fn waitlist(seed: u64, slot: &Slot) {
    use shuttle::sync::Mutex;
    use sync42::wait_list::WaitList;
    let mut rng = Rng::new(seed);
    let cap = rng.range(1, 4) as usize;
    let n_t = rng.range(2, 5) as usize;
    let wl: Arc<WaitList<u64>> = Arc::new(WaitList::verif_with_capacity(cap));
    // ticket order is fixed under this mutex, exactly as the store does it
    let state: Arc<Mutex<(u64, Vec<u64>)>> = Arc::new(Mutex::new((0, Vec::new())));
    let events: Arc<StdMutex<Vec<u64>>> = Arc::new(StdMutex::new(Vec::new()));
    let heads = Arc::new(AtomicU64::new(0));
    let mut handles = Vec::new();
    for t in 0..n_t {
        let wl = Arc::clone(&wl);
        let state = Arc::clone(&state);
        let events = Arc::clone(&events);
        let heads = Arc::clone(&heads);
        let rounds = rng.range(1, 2);
        let leave_early = rng.chance(1, 5);
        handles.push(thread::spawn(move || {
            for _ in 0..rounds {
                // link outside the state mutex when slots are scarce (a link may have to wait for
                // a slot, and the thread that frees one needs the mutex)
                let mut guard = wl.link(t as u64);
                let my_index = guard.index();
                if leave_early {
                    // unlink without ever becoming head: the others must still make progress
                    drop(guard);
                    wl.notify_head();
                    events.lock().unwrap().push(0x100 | t as u64);
                    continue;
                }
                let mut st = state.lock().unwrap();
                while !guard.is_head() {
                    st = guard.naked_wait(st);
                }
                // exactly one head: nobody else may be in here
                if heads.fetch_add(1, Ordering::SeqCst) != 0 {
                    violation("waitlist-two-heads", format!("thread {t} index {my_index} is head while another head is active"));
                }
                // head positions are handed out in link order
                if let Some(last) = st.1.last() {
                    if *last > my_index {
                        violation("waitlist-head-out-of-link-order", format!("index {my_index} became head after {last}"));
                    }
                }
                st.1.push(my_index);
                st.0 += 1;
                heads.fetch_sub(1, Ordering::SeqCst);
                drop(guard);
                drop(st);
                wl.notify_head();
                events.lock().unwrap().push(t as u64);
            }
        }));
    }
    for h in handles {
        h.join().unwrap();
    }
    finish(
        slot,
        &events,
        n_t > cap || n_t > 1,
        vec![("waitlist_more_threads_than_slots", (n_t > cap) as u64), ("waitlist_executions", 1)],
        serde_json::json!({"capacity": cap, "threads": n_t}),
    );
}

///////////////////////////////////////////////// LRU //////////////////////////////////////////////

#[derive(Clone, Debug)]
struct LruModel {
    cap: usize,
    refresh_on_overwrite: bool,
    /// front = most recently used
    order: VecDeque<(u64, Vec<u8>)>,
}

impl LruModel {
    fn size(&self) -> usize {
        self.order.iter().map(|(_, v)| v.len()).sum()
    }
    fn insert(&mut self, k: u64, v: Vec<u8>, evict: bool) {
        if let Some(pos) = self.order.iter().position(|(kk, _)| *kk == k) {
            if self.refresh_on_overwrite {
                self.order.remove(pos);
                self.order.push_front((k, v));
            } else {
                self.order[pos].1 = v;
            }
        } else {
            self.order.push_front((k, v));
        }
        if evict {
            while self.size() > self.cap && !self.order.is_empty() {
                self.order.pop_back();
            }
        }
    }
    fn lookup(&mut self, k: u64) -> Option<Vec<u8>> {
        let pos = self.order.iter().position(|(kk, _)| *kk == k)?;
        let e = self.order.remove(pos).unwrap();
        let v = e.1.clone();
        self.order.push_front(e);
        Some(v)
    }
    fn remove(&mut self, k: u64) {
        if let Some(pos) = self.order.iter().position(|(kk, _)| *kk == k) {
            self.order.remove(pos);
        }
    }
    fn pop(&mut self) -> Option<(u64, Vec<u8>)> {
        self.order.pop_back()
    }
}

#[derive(Clone, Debug)]
enum LruOp {
    Insert(u64, usize),
    InsertNoEvict(u64, usize),
    Lookup(u64),
    Remove(u64),
    Pop,
}

fn gen_lru_ops(rng: &mut Rng, n: usize, cap: usize) -> Vec<LruOp> {
    (0..n)
        .map(|_| {
            let k = rng.below(6);
            let sz = match rng.below(6) {
                0 => 0,
                1 => cap + rng.range(1, 10) as usize, // larger than the whole cache
                _ => rng.range(1, (cap / 2).max(2) as u64) as usize,
            };
            match rng.below(10) {
                0..=3 => LruOp::Insert(k, sz),
                4 => LruOp::InsertNoEvict(k, sz),
                5..=7 => LruOp::Lookup(k),
                8 => LruOp::Remove(k),
                _ => LruOp::Pop,
            }
        })
        .collect()
}

/// Long single-threaded op sequences against the sequential model.  Where the documentation is
/// silent (does overwriting an entry refresh its recency?) either reading is accepted, but one
/// reading must explain the whole run.
pub fn lru_sequential(seed: u64, slot: &Slot) {
    use sync42::lru::LeastRecentlyUsedCache;
    let mut rng = Rng::new(seed);
    let cap = *rng.pick(&[0usize, 1, 8, 16, 64]);
    let nops = rng.range(10, 80) as usize;
    let ops = gen_lru_ops(&mut rng, nops, cap.max(4));
    let lru: LeastRecentlyUsedCache<u64, Vec<u8>> = LeastRecentlyUsedCache::new(cap);
    let mut models = vec![
        LruModel { cap, refresh_on_overwrite: false, order: VecDeque::new() },
        LruModel { cap, refresh_on_overwrite: true, order: VecDeque::new() },
    ];
    let events = StdMutex::new(Vec::new());
    let mut no_evict_used = false;
    for (i, op) in ops.iter().enumerate() {
        let mut results: Vec<String> = Vec::new();
        let got = match op {
            LruOp::Insert(k, sz) => {
                lru.insert(*k, vec![*k as u8; *sz]);
                for m in models.iter_mut() {
                    m.insert(*k, vec![*k as u8; *sz], true);
                    results.push(String::new());
                }
                String::new()
            }
            LruOp::InsertNoEvict(k, sz) => {
                no_evict_used = true;
                lru.insert_no_evict(*k, vec![*k as u8; *sz]);
                for m in models.iter_mut() {
                    m.insert(*k, vec![*k as u8; *sz], false);
                    results.push(String::new());
                }
                String::new()
            }
            LruOp::Lookup(k) => {
                let g = format!("{:?}", lru.lookup(k).map(|v| v.len()));
                for m in models.iter_mut() {
                    results.push(format!("{:?}", m.lookup(*k).map(|v| v.len())));
                }
                g
            }
            LruOp::Remove(k) => {
                lru.remove(k);
                for m in models.iter_mut() {
                    m.remove(*k);
                    results.push(String::new());
                }
                String::new()
            }
            LruOp::Pop => {
                let g = format!("{:?}", lru.pop().map(|(k, v)| (k, v.len())));
                for m in models.iter_mut() {
                    results.push(format!("{:?}", m.pop().map(|(k, v)| (k, v.len()))));
                }
                g
            }
        };
        let size = lru.approximate_size();
        // keep the models that still explain everything
        let mut keep = Vec::new();
        for (m, r) in models.iter().zip(results.iter()) {
            if *r == got && m.size() == size {
                keep.push(m.clone());
            }
        }
        if keep.is_empty() {
            violation(
                "lru-differs-from-sequential-model",
                format!(
                    "op #{i} {op:?} returned {got} with accounted size {size}; models expected {:?} (capacity {cap}); ops so far {:?}",
                    models.iter().zip(results.iter()).map(|(m, r)| (r.clone(), m.size())).collect::<Vec<_>>(),
                    &ops[..=i]
                ),
            );
        }
        models = keep;
        if !no_evict_used && size > cap && matches!(op, LruOp::Insert(..)) && !models.iter().any(|m| m.size() == size) {
            violation("lru-size-exceeds-capacity-without-no-evict", format!("size {size} capacity {cap}"));
        }
        events.lock().unwrap().push(size as u64);
    }
    finish(slot, &events, true, vec![("lru_sequential_ops", ops.len() as u64)], serde_json::json!({"capacity": cap, "ops": ops.len()}));
}

/// 2-3 threads x 3 ops, checked for linearizability against the sequential model.
pub fn lru_concurrent(seed: u64, slot: &Slot) {
    use sync42::lru::LeastRecentlyUsedCache;
    let mut rng = Rng::new(seed);
    let cap = *rng.pick(&[4usize, 8, 16]);
    let lru: Arc<LeastRecentlyUsedCache<u64, Vec<u8>>> = Arc::new(LeastRecentlyUsedCache::new(cap));
    let n_t = rng.range(2, 3) as usize;
    let clock = Arc::new(AtomicU64::new(0));
    let hist: Arc<StdMutex<Vec<(u64, u64, LruOp, String)>>> = Arc::new(StdMutex::new(Vec::new()));
    let events: Arc<StdMutex<Vec<u64>>> = Arc::new(StdMutex::new(Vec::new()));
    let mut handles = Vec::new();
    for _ in 0..n_t {
        let ops = gen_lru_ops(&mut rng, 3, cap);
        let lru = Arc::clone(&lru);
        let clock = Arc::clone(&clock);
        let hist = Arc::clone(&hist);
        handles.push(thread::spawn(move || {
            for op in ops {
                let inv = clock.fetch_add(1, Ordering::SeqCst);
                let got = match &op {
                    LruOp::Insert(k, sz) => {
                        lru.insert(*k, vec![*k as u8; *sz]);
                        String::new()
                    }
                    LruOp::InsertNoEvict(k, sz) => {
                        lru.insert_no_evict(*k, vec![*k as u8; *sz]);
                        String::new()
                    }
                    LruOp::Lookup(k) => format!("{:?}", lru.lookup(k).map(|v| v.len())),
                    LruOp::Remove(k) => {
                        lru.remove(k);
                        String::new()
                    }
                    LruOp::Pop => format!("{:?}", lru.pop().map(|(k, v)| (k, v.len()))),
                };
                let ret = clock.fetch_add(1, Ordering::SeqCst);
                hist.lock().unwrap().push((inv, ret, op, got));
            }
        }));
    }
    for h in handles {
        h.join().unwrap();
    }
    let final_size = lru.approximate_size();
    let h = hist.lock().unwrap().clone();
    // brute-force linearization search (<= 9 operations)
    fn search(h: &[(u64, u64, LruOp, String)], done: &mut Vec<bool>, m: &LruModel, final_size: usize) -> bool {
        if done.iter().all(|d| *d) {
            return m.size() == final_size;
        }
        let min_ret = h.iter().zip(done.iter()).filter(|(_, d)| !**d).map(|(e, _)| e.1).min().unwrap();
        for i in 0..h.len() {
            if done[i] || h[i].0 > min_ret {
                continue;
            }
            let mut m2 = m.clone();
            let r = match &h[i].2 {
                LruOp::Insert(k, sz) => {
                    m2.insert(*k, vec![*k as u8; *sz], true);
                    String::new()
                }
                LruOp::InsertNoEvict(k, sz) => {
                    m2.insert(*k, vec![*k as u8; *sz], false);
                    String::new()
                }
                LruOp::Lookup(k) => format!("{:?}", m2.lookup(*k).map(|v| v.len())),
                LruOp::Remove(k) => {
                    m2.remove(*k);
                    String::new()
                }
                LruOp::Pop => format!("{:?}", m2.pop().map(|(k, v)| (k, v.len()))),
            };
            if r == h[i].3 {
                done[i] = true;
                if search(h, done, &m2, final_size) {
                    done[i] = false;
                    return true;
                }
                done[i] = false;
            }
        }
        false
    }
    let ok = [false, true].iter().any(|refresh| {
        let m = LruModel { cap, refresh_on_overwrite: *refresh, order: VecDeque::new() };
        search(&h, &mut vec![false; h.len()], &m, final_size)
    });
    if !ok {
        violation("lru-history-not-linearizable", format!("capacity {cap}, final size {final_size}, history {h:?}"));
    }
    let overlapped = h.iter().any(|a| h.iter().any(|b| a.0 < b.0 && b.0 < a.1));
    for e in h.iter() {
        events.lock().unwrap().push(e.0 << 8 | e.1);
    }
    finish(slot, &events, overlapped, vec![("lru_concurrent_executions", 1)], serde_json::json!({"capacity": cap, "threads": n_t}));
}
