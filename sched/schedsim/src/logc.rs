//! C12, concurrency half: 2-4 threads append batches through `ConcurrentLogBuilder<File>` (the
//! write- and fsync-coalescing queues).  The file-system seam records every write and fdatasync.
//! At each `append` return that reported success, the image made of everything written before
//! the last successful fdatasync must already contain that batch, whole; at the end the file
//! holds each acknowledged batch exactly once and whole.

use std::sync::atomic::{AtomicU64, Ordering};
use std::sync::{Arc, Mutex as StdMutex};

use arrrg::CommandLine;
use shuttle::thread;
use sst::log::{ConcurrentLogBuilder, WriteBatch};
use sst::Builder;

use crate::fsx::{self, Ev, Fault};
use crate::rng::Rng;
use crate::{util, violation, Slot};

fn durable_image(trace: &[Ev]) -> (Vec<u8>, Vec<u8>, usize, usize) {
    // (bytes durable at the last sync, all bytes written, #writes, #syncs)
    let mut h_log = None;
    let mut all: Vec<u8> = Vec::new();
    let mut durable: Vec<u8> = Vec::new();
    let (mut writes, mut syncs) = (0, 0);
    for ev in trace {
        match ev {
            Ev::Open { h, path, .. } if path == "c.log" => h_log = Some(*h),
            Ev::Write { h, off, data } if Some(*h) == h_log => {
                let off = *off as usize;
                if all.len() < off + data.len() {
                    all.resize(off + data.len(), 0);
                }
                all[off..off + data.len()].copy_from_slice(data);
                writes += 1;
            }
            Ev::Sync { h } if Some(*h) == h_log => {
                durable = all.clone();
                syncs += 1;
            }
            _ => {}
        }
    }
    (durable, all, writes, syncs)
}

fn parse(bytes: &[u8]) -> (Vec<Vec<u8>>, Option<String>) {
    let mut keys = Vec::new();
    let mut it = match sst::LogIterator::from_reader(sst::LogOptions::default(), std::io::Cursor::new(bytes.to_vec())) {
        Ok(it) => it,
        Err(e) => return (keys, Some(format!("{e}"))),
    };
    loop {
        match it.next() {
            Ok(Some(kv)) => keys.push(kv.key.to_vec()),
            Ok(None) => return (keys, None),
            Err(e) => return (keys, Some(format!("{e}"))),
        }
    }
}

fn contains_whole(keys: &[Vec<u8>], batch: &[Vec<u8>]) -> usize {
    // number of times the batch occurs as a contiguous run
    if batch.is_empty() || keys.len() < batch.len() {
        return 0;
    }
    (0..=keys.len() - batch.len())
        .filter(|i| keys[*i..*i + batch.len()] == *batch)
        .count()
}

pub fn concurrent_log(seed: u64, worker: usize, slot: &Slot, with_fault: bool) {
    let mut rng = Rng::new(seed);
    let dir = util::scratch_for(worker).join("logc");
    let _ = std::fs::remove_dir_all(&dir);
    std::fs::create_dir_all(&dir).expect("logc dir");
    let n_t = rng.range(2, 4) as usize;
    let per = rng.range(1, 3) as usize;
    let fault = if with_fault {
        Some(Fault {
            at: rng.range(1, (n_t * per * 2) as u64),
            errno: libc::EIO,
        })
    } else {
        None
    };
    fsx::install(&dir, fault);
    // Drawn from a stream of its own (the other draws stay what they were): the size of the
    // log's write buffer, and whether the threads start a few dozen bytes before a 1 MiB block
    // boundary, so that their batches are split into two fragments (seeded change C12-f: the tail
    // fragment of a split batch left in a small write buffer when the append returns).
    let mut xr = Rng::new(crate::rng::mix(&[seed, 0x7762_7566]));
    // (only without an injected fault: with a write buffer smaller than a frame a failed write
    // leaves half a frame in the file, and whoever keeps appending to that builder afterwards is
    // acknowledged behind it; C12 does not quantify over I/O errors and the store above poisons
    // itself at the first log error, so that is noted in DESIGN.md and not judged here)
    let wbuf = if with_fault { xr.pick(&[0usize]); 0 } else { *xr.pick(&[0usize, 0, 64, 4096]) };
    let near_boundary = !with_fault && xr.chance(1, 4);
    let gap = xr.range(20, 400);
    let options = if wbuf > 0 {
        sst::LogOptions::from_arguments_relaxed("logc", &["--write-buffer", &wbuf.to_string()]).0
    } else {
        sst::LogOptions::default()
    };
    let log = match ConcurrentLogBuilder::new(options, dir.join("c.log")) {
        Ok(l) => Arc::new(l),
        Err(e) => {
            let _ = fsx::uninstall();
            violation("log-create-failed", format!("{e}"));
        }
    };
    let events: Arc<StdMutex<Vec<u64>>> = Arc::new(StdMutex::new(Vec::new()));
    let acked: Arc<StdMutex<Vec<Vec<Vec<u8>>>>> = Arc::new(StdMutex::new(Vec::new()));
    let failed = Arc::new(AtomicU64::new(0));
    let problem: Arc<StdMutex<Option<(String, String)>>> = Arc::new(StdMutex::new(None));
    if near_boundary {
        // two filler batches bring the end of the file to `gap` bytes (give or take a varint)
        // before the first block boundary
        let file_len = || durable_image(&fsx::trace_since(0)).1.len() as u64;
        let block = 1u64 << 20;
        let mut fill = |n: usize, target_end: u64| {
            let start = file_len();
            let mut wb = WriteBatch::default();
            let mut keys = Vec::new();
            let mut e = 0;
            loop {
                let key = format!("fill{n}e{e}").into_bytes();
                let room = target_end.saturating_sub(start + wb.approximate_size() as u64 + 24);
                if room < 64 {
                    break;
                }
                let vlen = (room - 40).min(32_000) as usize;
                wb.put(&key, 1 + e as u64, &vec![b'f'; vlen]).expect("filler entry");
                keys.push(key);
                e += 1;
            }
            if keys.is_empty() {
                return;
            }
            match log.append(wb) {
                Ok(()) => acked.lock().unwrap().push(keys),
                Err(e) => violation("append-failed-without-fault", format!("filler batch: {e}")),
            }
        };
        fill(0, block - 8192);
        fill(1, block - gap);
    }
    let mut handles = Vec::new();
    for t in 0..n_t {
        let log = Arc::clone(&log);
        let events = Arc::clone(&events);
        let acked = Arc::clone(&acked);
        let failed = Arc::clone(&failed);
        let problem = Arc::clone(&problem);
        let mut rng = rng.fork();
        handles.push(thread::spawn(move || {
            for b in 0..per {
                if rng.chance(1, 4) {
                    // an explicit fsync() joins the fsync queue with offset 0; it must not
                    // weaken what the appenders coalesced with it are promised
                    if log.fsync().is_err() {
                        failed.fetch_add(1, Ordering::SeqCst);
                    }
                }
                let mut wb = WriteBatch::default();
                let mut keys = Vec::new();
                for e in 0..rng.range(1, 3) {
                    let key = format!("t{t}b{b}e{e}").into_bytes();
                    let r = if rng.chance(1, 5) {
                        wb.del(&key, (t * 100 + b * 10) as u64 + e)
                    } else {
                        wb.put(&key, (t * 100 + b * 10) as u64 + e, &vec![b'v'; rng.range(0, 40) as usize])
                    };
                    r.expect("batch insert");
                    keys.push(key);
                }
                let r = log.append(wb);
                match r {
                    Ok(()) => {
                        // durable-before-return
                        let trace = fsx::trace_since(0);
                        let (durable, _, _, _) = durable_image(&trace);
                        let (seen, _) = parse(&durable);
                        if contains_whole(&seen, &keys) == 0 {
                            let mut p = problem.lock().unwrap();
                            if p.is_none() {
                                *p = Some((
                                    "append-returned-before-batch-was-durable".to_string(),
                                    format!(
                                        "thread {t} batch {b}: append returned Ok but the bytes covered by the last successful fdatasync ({} bytes) do not contain the batch",
                                        durable.len()
                                    ),
                                ));
                            }
                        }
                        acked.lock().unwrap().push(keys);
                        events.lock().unwrap().push((t * 10 + b) as u64);
                    }
                    Err(_) => {
                        failed.fetch_add(1, Ordering::SeqCst);
                        events.lock().unwrap().push(1000 + (t * 10 + b) as u64);
                    }
                }
            }
        }));
    }
    for h in handles {
        h.join().unwrap();
    }
    let fired = fsx::fault_fired();
    // seal and read the final file
    let sealed = match Arc::try_unwrap(log) {
        Ok(l) => l.seal().map(|_| ()).map_err(|e| format!("{e}")),
        Err(_) => Err("log still shared".to_string()),
    };
    let ctx = fsx::uninstall();
    let trace = ctx.map(|c| c.trace).unwrap_or_default();
    let (_, all, writes, syncs) = durable_image(&trace);
    if let Some((class, detail)) = problem.lock().unwrap().take() {
        violation(&class, detail);
    }
    if fired.is_none() {
        if let Err(e) = sealed {
            violation("seal-failed", e);
        }
        if failed.load(Ordering::SeqCst) > 0 {
            violation("append-failed-without-fault", format!("{} appends returned an error", failed.load(Ordering::SeqCst)));
        }
    }
    let on_disk = std::fs::read(dir.join("c.log")).unwrap_or_default();
    let (seen, err) = parse(&on_disk);
    let _ = all;
    for keys in acked.lock().unwrap().iter() {
        let n = contains_whole(&seen, keys);
        if n != 1 {
            violation(
                if n == 0 { "acknowledged-batch-missing-from-log" } else { "acknowledged-batch-duplicated-in-log" },
                format!(
                    "batch {:?} occurs {n} times in the final file ({} entries read, reader error: {err:?}, fault: {fired:?})",
                    keys.iter().map(|k| String::from_utf8_lossy(k).to_string()).collect::<Vec<_>>(),
                    seen.len()
                ),
            );
        }
    }
    if fired.is_none() {
        if let Some(e) = err {
            violation("final-log-unreadable", e);
        }
        let total: usize = acked.lock().unwrap().iter().map(|k| k.len()).sum();
        if seen.len() != total {
            violation("final-log-entry-count-differs", format!("{} entries read, {total} appended", seen.len()));
        }
    }
    let appends = n_t * per;
    let ev = events.lock().unwrap().clone();
    let mut r = slot.lock().unwrap();
    let mut h = 0u64;
    for e in ev.iter() {
        h = crate::rng::mix(&[h, *e]);
    }
    r.order_hash = crate::rng::mix(&[h, writes as u64, syncs as u64]);
    r.nontrivial = writes < appends || syncs < appends;
    r.steps = trace.len() as u64;
    *r.probes.entry("log_appends".into()).or_insert(0) += appends as u64;
    *r.probes.entry("log_write_calls".into()).or_insert(0) += writes as u64;
    *r.probes.entry("log_fdatasync_calls".into()).or_insert(0) += syncs as u64;
    *r.probes.entry("executions_with_coalesced_writes".into()).or_insert(0) += (writes < appends) as u64;
    *r.probes.entry("executions_with_coalesced_fsyncs".into()).or_insert(0) += (syncs < appends) as u64;
    if let Some(f) = fired {
        let kind = f.split(' ').nth(1).unwrap_or("?").to_string();
        *r.probes.entry(format!("fault_fired_EIO_{kind}")).or_insert(0) += 1;
        *r.probes.entry("appends_failed_under_fault".into()).or_insert(0) += failed.load(Ordering::SeqCst);
    }
    r.sample = Some(serde_json::json!({"threads": n_t, "batches_per_thread": per, "write_calls": writes, "fdatasync_calls": syncs, "fault": with_fault}));
    drop(r);
    let _ = std::fs::remove_dir_all(&dir);
}
