//! schedsim: concurrent deterministic simulation under the shuttle scheduler.
//!
//! One execution = one scenario instance (parameters drawn from the execution seed) run under a
//! seeded RandomScheduler or PctScheduler.  The same seed reproduces the same workload and the
//! same interleaving, so a replay file is (scenario, scheduler, execution seed).

#[path = "../../../sim/storesim/src/rng.rs"]
mod rng;
#[path = "../../../sim/storesim/src/util.rs"]
mod util;
#[path = "../../../sim/storesim/src/fsx.rs"]
mod fsx;
#[path = "../../../sim/storesim/src/image.rs"]
mod image;

mod ds;
mod linz;
mod logc;
mod store;

use std::collections::{BTreeMap, BTreeSet};
use std::panic::{catch_unwind, AssertUnwindSafe};
use std::path::{Path, PathBuf};
use std::sync::{Arc, Mutex};

use serde::{Deserialize, Serialize};
use serde_json::json;
use shuttle::scheduler::{PctScheduler, RandomScheduler};
use shuttle::{Config, FailurePersistence, MaxSteps, Runner};

use util::{Args, KnownFindings, Part};

/// What a scenario reports about one execution.
#[derive(Clone, Debug, Default)]
pub struct Report {
    /// hash of the observable event order (distinct-interleaving measure)
    pub order_hash: u64,
    /// true iff threads really overlapped / background work happened (scenario's rule)
    pub nontrivial: bool,
    pub probes: BTreeMap<String, u64>,
    pub sample: Option<serde_json::Value>,
    pub steps: u64,
    /// Scenario-chosen tag appended to the class of any failure of this execution.
    pub tag: String,
}

pub type Slot = Arc<Mutex<Report>>;

/// Raise a property violation from inside an execution.
pub fn violation(class: &str, detail: String) -> ! {
    panic!("VIOL|{class}|{detail}");
}

#[derive(Clone, Debug, Serialize, Deserialize)]
pub struct SReplay {
    pub property: String,
    pub engine: String,
    pub class: String,
    pub detail: String,
    pub verif_seed: u64,
    pub scenario: String,
    pub scheduler: String,
    pub exec_seed: u64,
}

thread_local! {
    static LAST_PANIC: std::cell::RefCell<Option<String>> = const { std::cell::RefCell::new(None) };
}

fn install_panic_hook() {
    std::panic::set_hook(Box::new(move |info| {
        let msg = if let Some(s) = info.payload().downcast_ref::<&str>() {
            s.to_string()
        } else if let Some(s) = info.payload().downcast_ref::<String>() {
            s.clone()
        } else {
            "<non-string panic>".to_string()
        };
        let loc = info
            .location()
            .map(|l| {
                let f = l.file();
                let f = f.strip_prefix("/repo/").unwrap_or(f);
                format!("{}:{}", f, l.line())
            })
            .unwrap_or_default();
        if std::env::var("SCHEDSIM_VERBOSE").is_ok() {
            eprintln!("PANIC: {msg} @ {loc}");
        }
        // keep the first panic of an execution: later ones are consequences
        LAST_PANIC.with(|p| {
            let mut p = p.borrow_mut();
            if p.is_none() {
                *p = Some(format!("{msg} @ {loc}"));
            }
        });
    }));
}

pub fn panic_class(msg: &str) -> String {
    let mut out = String::new();
    let mut last_hash = false;
    for c in msg.chars().take(140) {
        if c.is_ascii_digit() {
            if !last_hash {
                out.push('#');
                last_hash = true;
            }
        } else {
            out.push(c);
            last_hash = false;
        }
    }
    out
}

pub struct ExecResult {
    pub report: Report,
    pub failure: Option<(String, String)>,
}

/// Run one execution of `scenario` under the scheduler named by `sched`, on a fresh OS thread:
/// a failed execution leaks its tasks (see below) and must not contaminate the scheduler's
/// thread-local state for the next one.
pub fn run_execution(scenario: &str, sched: &str, exec_seed: u64, worker: usize) -> ExecResult {
    let scenario = scenario.to_string();
    let sched = sched.to_string();
    std::thread::Builder::new()
        .stack_size(8 << 20)
        .spawn(move || run_execution_here(&scenario, &sched, exec_seed, worker))
        .expect("spawn execution thread")
        .join()
        .unwrap_or_else(|_| ExecResult {
            report: Report::default(),
            failure: Some(("harness-thread-panicked".to_string(), String::new())),
        })
}

fn run_execution_here(scenario: &str, sched: &str, exec_seed: u64, worker: usize) -> ExecResult {
    let slot: Slot = Arc::new(Mutex::new(Report::default()));
    let mut config = Config::new();
    config.stack_size = 1 << 21;
    config.failure_persistence = FailurePersistence::None;
    config.max_steps = MaxSteps::FailAfter(max_steps_for(scenario));
    config.silence_warnings = true;
    // After the first panic of an execution stop at once and leak the remaining tasks instead of
    // running their destructors (which panic again inside the scheduler and abort the process).
    config.ungraceful_shutdown_config.immediately_return_on_panic = true;
    let slot2 = Arc::clone(&slot);
    let name = scenario.to_string();
    let body = move || dispatch(&name, exec_seed, worker, &slot2);
    LAST_PANIC.with(|p| *p.borrow_mut() = None);
    // A failed execution leaks its tasks, and with them every file they hold open; at thorough
    // scale the leaked descriptors of the (known) deadlocking executions reached the process
    // limit.  Everything this thread opened and did not close is closed when the execution ends.
    fsx::leak_guard_begin();
    let r = catch_unwind(AssertUnwindSafe(|| {
        if let Some(depth) = sched.strip_prefix("pct") {
            let depth: usize = depth.parse().unwrap_or(3);
            Runner::new(PctScheduler::new_from_seed(exec_seed, depth, 1), config).run(body);
        } else {
            Runner::new(RandomScheduler::new_from_seed(exec_seed, 1), config).run(body);
        }
    }));
    let _closed_for_leaked_tasks = fsx::leak_guard_end();
    let report = slot.lock().map(|r| r.clone()).unwrap_or_else(|e| e.into_inner().clone());
    let failure = match r {
        Ok(()) => None,
        Err(_) => {
            let msg = LAST_PANIC
                .with(|p| p.borrow_mut().take())
                .unwrap_or_else(|| "<unknown panic>".to_string());
            let (mut class, mut detail) = classify(&msg);
            if class == "deadlock" && report.tag.contains("daemon-exited-with-error(max-open-files)") {
                // A daemon returned the explicit max_open_files error and stopped; with no
                // compaction or flush thread running the property's premise is void.
                let mut report = report;
                *report
                    .probes
                    .entry("premise_void_daemon_stopped_at_max_open_files_then_writers_wait".to_string())
                    .or_insert(0) += 1;
                return ExecResult { report, failure: None };
            }
            if !report.tag.is_empty() {
                class = format!("{class}:{}", report.tag);
            }
            if let Some(s) = report.sample.as_ref() {
                detail = format!("{detail} [scenario parameters: {s}]");
            }
            Some((class, detail))
        }
    };
    ExecResult { report, failure }
}

fn classify(msg: &str) -> (String, String) {
    if let Some(rest) = msg.strip_prefix("VIOL|") {
        let mut it = rest.splitn(2, '|');
        let class = it.next().unwrap_or("?").to_string();
        let detail = it.next().unwrap_or("").to_string();
        (class, detail)
    } else if msg.starts_with("deadlock!") {
        ("deadlock".to_string(), msg.to_string())
    } else if msg.starts_with("exceeded max_steps") {
        ("no-progress-within-step-bound".to_string(), msg.to_string())
    } else if msg.contains("skipfree: dereference of a node that is not live") {
        ("use-after-free:skiplist-node".to_string(), msg.to_string())
    } else {
        (format!("panic:{}", panic_class(msg)), msg.to_string())
    }
}

fn max_steps_for(scenario: &str) -> usize {
    if scenario.starts_with("kvs") || scenario.starts_with("tree") {
        2_000_000
    } else {
        300_000
    }
}

fn dispatch(scenario: &str, seed: u64, worker: usize, slot: &Slot) {
    match scenario {
        "skiplist" => ds::skiplist(seed, slot),
        "skiplist-iter-outlives" => ds::skiplist_iter_outlives(seed, slot),
        "listfree" => ds::listfree(seed, slot),
        "wcq" => ds::wcq(seed, slot),
        "waitlist" => ds::waitlist(seed, slot),
        "lru-conc" => ds::lru_concurrent(seed, slot),
        "lru-seq" => ds::lru_sequential(seed, slot),
        "logc" => logc::concurrent_log(seed, worker, slot, false),
        "logc-fault" => logc::concurrent_log(seed, worker, slot, true),
        "kvs-linz" => store::kvs_linearizability(seed, worker, slot),
        "kvs-cursor" => store::kvs_held_cursor(seed, worker, slot),
        "kvs-live" => store::kvs_liveness(seed, worker, slot),
        "kvs-verifier" => store::kvs_with_verifier(seed, worker, slot),
        "kvs-soak" => store::kvs_soak(seed, worker, slot),
        "tree-soak" => store::tree_soak(seed, worker, slot),
        "kvs-crash" => store::kvs_crash(seed, worker, slot),
        "kvs-batch-snapshot" => store::kvs_batch_snapshot(seed, worker, slot),
        "tree-live" => store::tree_liveness(seed, worker, slot),
        other => panic!("unknown scenario {other}"),
    }
}

fn property_of(scenario: &str) -> &'static str {
    match scenario {
        "skiplist" | "skiplist-iter-outlives" | "listfree" => "C17",
        "wcq" | "waitlist" | "lru-conc" | "lru-seq" => "C18",
        "logc" | "logc-fault" => "C12",
        "kvs-linz" => "C06",
        "kvs-cursor" => "C07",
        "kvs-verifier" => "C08",
        "kvs-soak" | "tree-soak" => "C01",
        "kvs-crash" => "C02",
        "kvs-batch-snapshot" => "C06",
        "kvs-live" | "tree-live" => "C20",
        _ => "?",
    }
}

fn cmd_sched(args: &Args) -> i32 {
    let prop = args.str("prop", "C17");
    let tier = args.str("tier", "quick");
    let seed = args.u64("seed", 1);
    let runs = args.u64("runs", 2000);
    let threads = args.u64("threads", 16) as usize;
    let budget_s = args.get("budget-s").map(|s| s.parse::<f64>().unwrap());
    let scenarios: Vec<String> = args.str("scenarios", "skiplist").split(',').map(|s| s.to_string()).collect();
    let scheds: Vec<String> = args.str("schedulers", "random").split(',').map(|s| s.to_string()).collect();
    let phase = args.str("phase", "sched");
    let out_path = PathBuf::from(args.str("out", "/verif/evidence/parts/sched.json"));
    let replay_dir = PathBuf::from(args.str("replay-dir", "/verif/replays"));
    let known = KnownFindings::load(Path::new(&args.str("known", "/verif/known_findings.json")));
    let start = std::time::Instant::now();
    println!("VERIF_SEED={seed} property={prop} engine=schedsim tier={tier} executions={runs} scenarios={scenarios:?} schedulers={scheds:?}");
    let scen2 = scenarios.clone();
    let scheds2 = scheds.clone();
    let prop2 = prop.clone();
    let inflight: Option<PathBuf> = args.get("inflight-dir").map(PathBuf::from);
    let inflight2 = inflight.clone();
    let results = util::par_map(runs, threads, budget_s, move |r, w| {
        let scenario = scen2[(r % scen2.len() as u64) as usize].clone();
        let sched = scheds2[((r / scen2.len() as u64) % scheds2.len() as u64) as usize].clone();
        let exec_seed = rng::mix(&[seed, rng::str_seed(&prop2), rng::str_seed(&scenario), r]);
        if let Some(dir) = inflight2.as_ref() {
            // survives an abort of this process: lets the supervisor find the execution
            let _ = std::fs::write(dir.join(format!("w{w}")), format!("{scenario} {sched} {exec_seed}"));
        }
        let res = run_execution(&scenario, &sched, exec_seed, w);
        (scenario, sched, exec_seed, res)
    });
    let done: Vec<_> = results.into_iter().flatten().collect();
    // Determinism self-test: re-run a sample and compare order hashes and outcomes.
    let sample: Vec<(String, String, u64, u64, Option<String>)> = done
        .iter()
        .take(24)
        .map(|(s, k, e, r)| (s.clone(), k.clone(), *e, r.report.order_hash, r.failure.as_ref().map(|f| f.0.clone())))
        .collect();
    let sample2 = sample.clone();
    let again = util::par_map(sample.len() as u64, threads.max(2) - 1, None, move |i, w| {
        let (s, k, e, _, _) = &sample2[i as usize];
        let r = run_execution(s, k, *e, w + 200);
        (r.report.order_hash, r.failure.map(|f| f.0))
    });
    let mut mismatches = Vec::new();
    for (a, b) in sample.iter().zip(again.iter().flatten()) {
        if a.3 != b.0 || a.4 != b.1 {
            mismatches.push((a.0.clone(), a.2));
        }
    }
    if !mismatches.is_empty() {
        eprintln!("HARNESS-ERROR: determinism self-test failed for {mismatches:?}");
        util::cleanup_scratch();
        return 2;
    }
    let mut distinct: BTreeSet<u64> = BTreeSet::new();
    let mut all_orders: BTreeSet<u64> = BTreeSet::new();
    let mut probes: BTreeMap<String, u64> = BTreeMap::new();
    let mut samples = Vec::new();
    let mut steps = 0u64;
    let mut by_scenario: BTreeMap<String, u64> = BTreeMap::new();
    let mut class_counts: BTreeMap<String, u64> = BTreeMap::new();
    let mut first: BTreeMap<String, (String, String, u64, String)> = BTreeMap::new();
    let mut other: BTreeMap<String, u64> = BTreeMap::new();
    let mut failure_details: Vec<serde_json::Value> = Vec::new();
    for (scenario, sched, exec_seed, res) in done.iter() {
        *by_scenario.entry(format!("{scenario}/{sched}")).or_insert(0) += 1;
        all_orders.insert(res.report.order_hash);
        if res.report.nontrivial {
            distinct.insert(res.report.order_hash);
        }
        for (k, v) in res.report.probes.iter() {
            *probes.entry(k.clone()).or_insert(0) += v;
        }
        steps += res.report.steps;
        if samples.len() < 3 {
            if let Some(s) = res.report.sample.clone() {
                samples.push(json!({"scenario": scenario, "scheduler": sched, "exec_seed": exec_seed, "case": s}));
            }
        }
        if let Some((class, detail)) = res.failure.as_ref() {
            let p = if (scenario == "kvs-soak" || scenario == "tree-soak") && class.contains("scan") {
                "C03"
            } else if scenario == "kvs-batch-snapshot" && class.starts_with("held-cursor") {
                "C07"
            } else if class.starts_with("ledger-broken") {
                "C04"
            } else {
                property_of(scenario)
            };
            let class = format!("{scenario}:{class}");
            if p == prop {
                if failure_details.len() < 400 {
                    failure_details.push(json!({"class": class, "detail": detail.chars().take(900).collect::<String>()}));
                }
                *class_counts.entry(class.clone()).or_insert(0) += 1;
                first.entry(class).or_insert((scenario.clone(), sched.clone(), *exec_seed, detail.clone()));
            } else {
                *other.entry(format!("{p}:{class}")).or_insert(0) += 1;
            }
        }
    }
    if samples.is_empty() {
        samples.push(json!({"scenarios": scenarios}));
    }
    let mut exit = 0;
    let mut known_out = Vec::new();
    let mut new_classes = 0;
    let mut reported = 0;
    for (class, (scenario, sched, exec_seed, detail)) in first.iter() {
        if let Some(f) = known.matches(&prop, class) {
            println!("KNOWN-FINDING: property={prop} class={} seen={} {}", f.class, class_counts[class], f.description);
            known_out.push(format!("{class} (seen {} times)", class_counts[class]));
            continue;
        }
        new_classes += 1;
        if reported >= 3 {
            continue;
        }
        reported += 1;
        // "minimise": look for a failing execution of the same class with a smaller workload.
        // Scenario parameters are drawn from the execution seed; smaller seeds are not smaller
        // workloads, so search a bounded number of other seeds and keep the one whose report
        // says it had the fewest steps.
        let mut best = (*exec_seed, detail.clone(), u64::MAX);
        for (s2, k2, e2, r2) in done.iter() {
            if s2 == scenario && k2 == sched {
                if let Some((c2, d2)) = r2.failure.as_ref() {
                    if format!("{s2}:{c2}") == *class && r2.report.steps < best.2 {
                        best = (*e2, d2.clone(), r2.report.steps);
                    }
                }
            }
        }
        let replay = SReplay {
            property: prop.clone(),
            engine: "schedsim".to_string(),
            class: class.clone(),
            detail: best.1.clone(),
            verif_seed: seed,
            scenario: scenario.clone(),
            scheduler: sched.clone(),
            exec_seed: best.0,
        };
        std::fs::create_dir_all(&replay_dir).ok();
        let text = serde_json::to_string_pretty(&replay).unwrap();
        let path = replay_dir.join(format!("{prop}-schedsim-{:016x}.json", util::fnv(text.as_bytes(), 0)));
        std::fs::write(&path, text).expect("write replay");
        let exe = std::env::current_exe().unwrap();
        let o = std::process::Command::new(exe).arg("replay").arg(&path).output().expect("spawn replay");
        if o.status.code() != Some(1) {
            eprintln!("HARNESS-ERROR: replay of {} did not reproduce: {}", path.display(), String::from_utf8_lossy(&o.stdout));
            util::cleanup_scratch();
            return 2;
        }
        println!("violation class={class} scenario={scenario} scheduler={sched} exec_seed={}: {}", best.0, best.1.chars().take(500).collect::<String>());
        println!("VIOLATION property={prop} replay={}", path.display());
        exit = 1;
    }
    let wall = start.elapsed().as_secs_f64();
    let mut extra = BTreeMap::new();
    extra.insert("executions".to_string(), json!(done.len()));
    extra.insert("executions_by_scenario_and_scheduler".to_string(), json!(by_scenario));
    extra.insert("executions_per_hour".to_string(), json!((done.len() as f64 / wall.max(0.001) * 3600.0) as u64));
    extra.insert("distinct_event_orders_all".to_string(), json!(all_orders.len()));
    extra.insert("scenario_steps".to_string(), json!(steps));
    extra.insert("probes".to_string(), json!(probes));
    extra.insert("determinism_selftest".to_string(), json!({"executions_run_twice": sample.len(), "mismatches": 0}));
    extra.insert("violation_classes_seen".to_string(), json!(class_counts));
    extra.insert("other_property_observations".to_string(), json!(other));
    if std::env::var("SCHEDSIM_FAILURE_DETAILS").is_ok() {
        extra.insert("failure_details".to_string(), json!(failure_details));
    }
    let part = Part {
        property_id: prop.clone(),
        engine: "schedsim".to_string(),
        phase,
        tier,
        seed,
        evaluations: done.len() as u64,
        distinct_nontrivial: distinct.len() as u64,
        rule: "one evaluation = one execution of a scenario (threads, workload and parameters drawn from the execution seed) under shuttle's seeded random or PCT scheduler, which decides every interleaving at every synchronisation operation of the real code; non-trivial = the scenario's threads really overlapped (scenario-specific rule, e.g. a reader observed an insert in flight, a batch was coalesced, a flush or compaction ran inside the window); distinct = distinct hash of the observable event order".to_string(),
        samples,
        wall_s: wall,
        violations: new_classes,
        known_findings: known_out,
        extra,
    };
    part.write(&out_path);
    println!(
        "schedsim {prop}: {} executions, {} distinct non-trivial orders, {:.1}s, new violation classes: {}",
        done.len(),
        distinct.len(),
        wall,
        new_classes
    );
    util::cleanup_scratch();
    exit
}

/// Run `sched` in a child process.  If the child dies abnormally (a panic inside a destructor
/// while unwinding aborts the process), find the execution that kills it and report that as a
/// violation with a replay file instead of dying with it.
fn cmd_supervise(argv: &[String], args: &Args) -> i32 {
    let exe = std::env::current_exe().expect("current exe");
    let dir = util::scratch_base().join("inflight");
    let _ = std::fs::remove_dir_all(&dir);
    std::fs::create_dir_all(&dir).expect("inflight dir");
    let mut child_args: Vec<String> = vec!["sched-inner".to_string()];
    child_args.extend(argv.iter().cloned());
    child_args.push("--inflight-dir".into());
    child_args.push(dir.to_string_lossy().to_string());
    let status = std::process::Command::new(&exe).args(&child_args).status().expect("spawn sched-inner");
    if let Some(code) = status.code() {
        if code == 0 || code == 1 || code == 2 {
            return code;
        }
    }
    eprintln!("schedsim: worker process died ({status}); looking for the execution that kills it");
    let prop = args.str("prop", "C17");
    let seed = args.u64("seed", 1);
    let replay_dir = PathBuf::from(args.str("replay-dir", "/verif/replays"));
    let mut candidates = Vec::new();
    if let Ok(rd) = std::fs::read_dir(&dir) {
        for e in rd.flatten() {
            if let Ok(t) = std::fs::read_to_string(e.path()) {
                let parts: Vec<String> = t.split(' ').map(|x| x.to_string()).collect();
                if parts.len() == 3 {
                    candidates.push(parts);
                }
            }
        }
    }
    candidates.sort();
    for c in candidates {
        let st = std::process::Command::new(&exe)
            .args(["exec-one", &c[0], &c[1], &c[2]])
            .stdout(std::process::Stdio::null())
            .stderr(std::process::Stdio::null())
            .status()
            .expect("spawn exec-one");
        if st.code().is_none() || st.code() == Some(134) {
            let replay = SReplay {
                property: prop.clone(),
                engine: "schedsim".to_string(),
                class: format!("{}:process-aborted", c[0]),
                detail: format!("the execution aborts the process ({st}); typically a panic inside a destructor while another panic unwinds"),
                verif_seed: seed,
                scenario: c[0].clone(),
                scheduler: c[1].clone(),
                exec_seed: c[2].parse().unwrap_or(0),
            };
            std::fs::create_dir_all(&replay_dir).ok();
            let text = serde_json::to_string_pretty(&replay).unwrap();
            let path = replay_dir.join(format!("{prop}-schedsim-{:016x}.json", util::fnv(text.as_bytes(), 0)));
            std::fs::write(&path, text).expect("write replay");
            println!("violation class={} exec_seed={}: {}", replay.class, replay.exec_seed, replay.detail);
            println!("VIOLATION property={prop} replay={}", path.display());
            // minimal evidence part so that the run is accounted for
            let part = Part {
                property_id: prop.clone(),
                engine: "schedsim".into(),
                phase: args.str("phase", "sched"),
                tier: args.str("tier", "quick"),
                seed,
                evaluations: 1,
                distinct_nontrivial: 2,
                rule: "worker process aborted; only the aborting execution is accounted for".into(),
                samples: vec![json!({"scenario": c[0], "exec_seed": c[2]})],
                wall_s: 0.0,
                violations: 1,
                known_findings: vec![],
                extra: BTreeMap::new(),
            };
            part.write(&PathBuf::from(args.str("out", "/verif/evidence/parts/sched.json")));
            return 1;
        }
    }
    eprintln!("HARNESS-ERROR: worker process died and no single execution reproduces it");
    2
}

fn cmd_replay(path: &Path) -> i32 {
    let text = match std::fs::read_to_string(path) {
        Ok(t) => t,
        Err(e) => {
            eprintln!("HARNESS-ERROR: cannot read {}: {e}", path.display());
            return 2;
        }
    };
    let r: SReplay = match serde_json::from_str(&text) {
        Ok(r) => r,
        Err(e) => {
            eprintln!("HARNESS-ERROR: cannot parse {}: {e}", path.display());
            return 2;
        }
    };
    if r.class.ends_with(":process-aborted") {
        let exe = std::env::current_exe().expect("current exe");
        let st = std::process::Command::new(&exe)
            .args(["exec-one", &r.scenario, &r.scheduler, &r.exec_seed.to_string()])
            .stdout(std::process::Stdio::null())
            .stderr(std::process::Stdio::null())
            .status()
            .expect("spawn exec-one");
        if st.code().is_none() || st.code() == Some(134) {
            println!("reproduced: class={} ({st})", r.class);
            println!("VIOLATION property={} replay={}", r.property, path.display());
            return 1;
        }
        println!("NOT-REPRODUCED: expected the process to abort, got {st}");
        return 0;
    }
    let res = run_execution(&r.scenario, &r.scheduler, r.exec_seed, 0);
    util::cleanup_scratch();
    match res.failure {
        Some((class, detail)) if format!("{}:{class}", r.scenario) == r.class => {
            println!("reproduced: class={} {}", r.class, detail.chars().take(500).collect::<String>());
            println!("VIOLATION property={} replay={}", r.property, path.display());
            1
        }
        other => {
            println!("NOT-REPRODUCED: expected class {} (got {:?})", r.class, other.map(|o| o.0));
            0
        }
    }
}

fn main() {
    let argv: Vec<String> = std::env::args().collect();
    if argv.len() < 2 {
        eprintln!("usage: schedsim <sched|replay> [--name value ...]");
        std::process::exit(2);
    }
    install_panic_hook();
    skipfree::verif::enable(true);
    // 64 slots: every store scenario keeps well under 16 threads (see DESIGN.md, H-cap).
    sync42::wait_list::verif::set_default_capacity(64);
    std::fs::create_dir_all(util::scratch_base()).expect("scratch dir");
    let args = Args::parse(&argv[2..]);
    let code = match argv[1].as_str() {
        "sched" => cmd_supervise(&argv[2..], &args),
        "sched-inner" => cmd_sched(&args),
        "exec-show" => {
            let res = run_execution(&argv[2], &argv[3], argv[4].parse().unwrap_or(0), 0);
            println!("report: {:?}", res.report);
            println!("failure: {:?}", res.failure);
            0
        }
        "exec-one" => {
            let res = run_execution(&argv[2], &argv[3], argv[4].parse().unwrap_or(0), 0);
            if res.failure.is_some() {
                1
            } else {
                0
            }
        }
        "replay" => {
            let p = args.free.first().cloned().unwrap_or_default();
            cmd_replay(Path::new(&p))
        }
        other => {
            eprintln!("unknown command {other}");
            2
        }
    };
    util::cleanup_scratch();
    std::process::exit(code);
}
