//! Store scenarios under the shuttle scheduler: linearizability and batch atomicity (C06), held
//! cursors while the store moves (C07), liveness of ingest vs compaction (C20).

use std::collections::{BTreeMap, BTreeSet};
use std::ops::Bound;
use std::path::{Path, PathBuf};
use std::sync::atomic::{AtomicU64, Ordering};
use std::sync::{Arc, Mutex as StdMutex};

use arrrg::CommandLine;
use lsmtk::{KeyValueStore, LsmTree, LsmtkOptions, WriteBatch};
use shuttle::thread;
use sst::{Builder, Cursor, SstBuilder, SstOptions};

use crate::linz::{self, Event, LOp};
use crate::rng::{self, Rng};
use crate::{util, violation, Slot};

fn options(dir: &Path, opts: &[(&str, String)]) -> LsmtkOptions {
    let mut args: Vec<String> = Vec::new();
    for (k, v) in opts {
        args.push(k.to_string());
        args.push(v.clone());
    }
    args.push("--path".into());
    args.push(dir.to_string_lossy().to_string());
    let refs: Vec<&str> = args.iter().map(|s| s.as_str()).collect();
    LsmtkOptions::from_arguments_relaxed("schedsim", &refs).0
}

fn fresh_dir(worker: usize, name: &str) -> PathBuf {
    let dir = util::scratch_for(worker).join(name);
    let _ = std::fs::remove_dir_all(&dir);
    std::fs::create_dir_all(&dir).expect("scenario dir");
    dir
}

fn key(i: usize) -> Vec<u8> {
    vec![b'k', b'0' + i as u8]
}

/// Value carrying a unique id; padded so that a handful of writes fills a tiny memtable.
fn value(id: u64, pad: usize) -> Vec<u8> {
    let mut v = id.to_be_bytes().to_vec();
    v.extend(std::iter::repeat(b'.').take(pad));
    v
}

fn value_id(v: &[u8]) -> u64 {
    let mut b = [0u8; 8];
    b.copy_from_slice(&v[..8]);
    u64::from_be_bytes(b)
}

struct Daemons {
    handles: Vec<thread::JoinHandle<Result<(), String>>>,
}

/// A daemon that returns an error has stopped running; the property's premise ("while a flush
/// thread and at least one compaction thread are running") no longer holds.  Note it in the tag.
/// Number of level-1 tables the level-0 compaction takes in: what level 0's key range overlaps,
/// the range growing with every table taken in (as `compute_bounds` does).
#[allow(clippy::type_complexity)]
fn level1_intake(lv: &[Vec<(setsum::Setsum, Vec<u8>, Vec<u8>, u64, u64, u64)>]) -> usize {
    let lo = lv[0].iter().map(|f| f.1.clone()).min();
    let hi = lv[0].iter().map(|f| f.2.clone()).max();
    let (Some(mut lo), Some(mut hi)) = (lo, hi) else { return 0 };
    loop {
        let mut n = 0;
        let (mut lo2, mut hi2) = (lo.clone(), hi.clone());
        for f in lv[1].iter().filter(|f| f.1 <= hi && lo <= f.2) {
            n += 1;
            lo2 = lo2.min(f.1.clone());
            hi2 = hi2.max(f.2.clone());
        }
        if lo2 == lo && hi2 == hi {
            return n;
        }
        lo = lo2;
        hi = hi2;
    }
}

fn note_daemon_exit(slot: &Slot, what: &str) {
    let mut r = slot.lock().unwrap();
    if !r.tag.contains("daemon-exited") {
        r.tag = format!("{}:daemon-exited-with-error({what})", r.tag);
    }
}

fn start_daemons_noting(kvs: &Arc<KeyValueStore>, compactors: usize, slot: &Slot) -> Daemons {
    let mut handles = Vec::new();
    {
        let k = Arc::clone(kvs);
        let slot = Arc::clone(slot);
        handles.push(thread::spawn(move || {
            k.memtable_thread().map_err(|e| {
                let e = format!("memtable thread: {e}");
                note_daemon_exit(&slot, if e.contains("too-many-open-files") { "max-open-files" } else { "other" });
                e
            })
        }));
    }
    for _ in 0..compactors {
        let k = Arc::clone(kvs);
        let slot = Arc::clone(slot);
        handles.push(thread::spawn(move || {
            k.compaction_thread().map_err(|e| {
                let e = format!("compaction thread: {e}");
                note_daemon_exit(&slot, if e.contains("too-many-open-files") { "max-open-files" } else { "other" });
                e
            })
        }));
    }
    Daemons { handles }
}

fn start_daemons(kvs: &Arc<KeyValueStore>, compactors: usize) -> Daemons {
    let slot: Slot = Arc::new(std::sync::Mutex::new(crate::Report::default()));
    start_daemons_noting(kvs, compactors, &slot)
}

fn stop_daemons(kvs: &Arc<KeyValueStore>, d: Daemons, property_class_prefix: &str) {
    kvs.verif_request_stop();
    for h in d.handles {
        match h.join() {
            Ok(Ok(())) => {}
            Ok(Err(e)) if e.contains("too-many-open-files") => {}
            Ok(Err(e)) => violation(&format!("{property_class_prefix}daemon-returned-error"), e),
            Err(_) => violation(&format!("{property_class_prefix}daemon-panicked"), "a daemon thread panicked".to_string()),
        }
    }
}

fn scan_all(kvs: &KeyValueStore, nkeys: usize) -> Result<Vec<Option<u64>>, String> {
    let lo: Bound<Vec<u8>> = Bound::Unbounded;
    let hi: Bound<Vec<u8>> = Bound::Unbounded;
    let mut c = kvs.range_scan(&lo, &hi).map_err(|e| format!("{e}"))?;
    let mut out = vec![None; nkeys];
    c.seek_to_first().map_err(|e| format!("{e}"))?;
    loop {
        c.next().map_err(|e| format!("{e}"))?;
        match c.key_value() {
            Some(kv) => {
                if kv.key.len() == 2 && kv.key[0] == b'k' {
                    let i = (kv.key[1] - b'0') as usize;
                    if i < nkeys {
                        out[i] = kv.value.map(value_id);
                    }
                }
            }
            None => break,
        }
    }
    Ok(out)
}

/////////////////////////////////////////// linearizability ////////////////////////////////////////

pub fn kvs_linearizability(seed: u64, worker: usize, slot: &Slot) {
    let mut rng = Rng::new(seed);
    let dir = fresh_dir(worker, "linz");
    let memtable = *rng.pick(&[0u64, 64, 64, 1 << 20]);
    let opts = options(&dir, &[("--memtable-size-bytes", memtable.to_string()), ("--sst-cache-bytes", "65536".into())]);
    let kvs = Arc::new(KeyValueStore::open(opts).unwrap_or_else(|e| violation("open-error", format!("{e}"))));
    let nkeys = rng.range(2, 4) as usize;
    let workload2 = rng.chance(1, 2); // W2: put, batch, get, scan (no deletes); W1: put, del, get
    let n_clients = rng.range(2, 3) as usize;
    let daemons = start_daemons(&kvs, rng.range(1, 2) as usize);
    let clock = Arc::new(AtomicU64::new(0));
    let next_id = Arc::new(AtomicU64::new(1));
    let hist: Arc<StdMutex<Vec<Event>>> = Arc::new(StdMutex::new(Vec::new()));
    let mut handles = Vec::new();
    for t in 0..n_clients {
        let kvs = Arc::clone(&kvs);
        let clock = Arc::clone(&clock);
        let next_id = Arc::clone(&next_id);
        let hist = Arc::clone(&hist);
        let mut rng = rng.fork();
        let nops = rng.range(2, 5);
        handles.push(thread::spawn(move || {
            for _ in 0..nops {
                let choice = rng.below(10);
                let inv = clock.fetch_add(1, Ordering::SeqCst);
                let op = if workload2 {
                    match choice {
                        0..=2 => {
                            let k = rng.usize_below(nkeys);
                            let id = next_id.fetch_add(1, Ordering::SeqCst);
                            kvs.put(&key(k), &value(id, 24)).unwrap_or_else(|e| violation("put-error", format!("{e}")));
                            LOp::Write(vec![(k, Some(id))])
                        }
                        3..=5 => {
                            // a batch over 2..nkeys distinct keys
                            let n = rng.range(2, nkeys as u64) as usize;
                            let mut ks: Vec<usize> = (0..nkeys).collect();
                            for i in (1..ks.len()).rev() {
                                let j = rng.usize_below(i + 1);
                                ks.swap(i, j);
                            }
                            ks.truncate(n);
                            let mut wb = WriteBatch::with_capacity(n);
                            let mut ws = Vec::new();
                            for k in ks {
                                if rng.chance(1, 5) {
                                    wb.del(&key(k));
                                    ws.push((k, None));
                                } else {
                                    let id = next_id.fetch_add(1, Ordering::SeqCst);
                                    wb.put(&key(k), &value(id, 24));
                                    ws.push((k, Some(id)));
                                }
                            }
                            if rng.chance(1, 6) {
                                // name one of the batch's keys a second time: the last entry wins
                                let k = ws[rng.usize_below(ws.len())].0;
                                let id = next_id.fetch_add(1, Ordering::SeqCst);
                                wb.put(&key(k), &value(id, 24));
                                ws.push((k, Some(id)));
                            }
                            kvs.write(wb).unwrap_or_else(|e| violation("write-error", format!("{e}")));
                            LOp::Write(ws)
                        }
                        6 => {
                            let k = rng.usize_below(nkeys);
                            let mut t = false;
                            let v = kvs.load(&key(k), &mut t).unwrap_or_else(|e| violation("load-error", format!("{e}")));
                            LOp::Get(k, v.as_deref().map(value_id))
                        }
                        7 => {
                            // the same read through a scan cursor positioned with seek()
                            let k = rng.usize_below(nkeys);
                            let lo: Bound<Vec<u8>> = Bound::Unbounded;
                            let hi: Bound<Vec<u8>> = Bound::Unbounded;
                            let mut c = kvs.range_scan(&lo, &hi).unwrap_or_else(|e| violation("scan-error", format!("{e}")));
                            c.seek(&key(k)).unwrap_or_else(|e| violation("seek-error", format!("{e}")));
                            let v = match c.key_value() {
                                Some(kv) if kv.key == key(k).as_slice() => kv.value.map(value_id),
                                _ => None,
                            };
                            LOp::Get(k, v)
                        }
                        _ => {
                            let s = scan_all(&kvs, nkeys).unwrap_or_else(|e| violation("scan-error", e));
                            LOp::Scan(s)
                        }
                    }
                } else {
                    match choice {
                        0..=3 => {
                            let k = rng.usize_below(nkeys);
                            let id = next_id.fetch_add(1, Ordering::SeqCst);
                            kvs.put(&key(k), &value(id, 24)).unwrap_or_else(|e| violation("put-error", format!("{e}")));
                            LOp::Write(vec![(k, Some(id))])
                        }
                        4..=5 => {
                            let k = rng.usize_below(nkeys);
                            kvs.del(&key(k)).unwrap_or_else(|e| violation("del-error", format!("{e}")));
                            LOp::Write(vec![(k, None)])
                        }
                        6..=7 => {
                            let k = rng.usize_below(nkeys);
                            let mut t = false;
                            let v = kvs.load(&key(k), &mut t).unwrap_or_else(|e| violation("load-error", format!("{e}")));
                            LOp::Get(k, v.as_deref().map(value_id))
                        }
                        _ => {
                            // the same read through a scan cursor positioned with seek(): this is
                            // the workload with deletes, so the key sought may carry a tombstone
                            let k = rng.usize_below(nkeys);
                            let lo: Bound<Vec<u8>> = Bound::Unbounded;
                            let hi: Bound<Vec<u8>> = Bound::Unbounded;
                            let mut c = kvs.range_scan(&lo, &hi).unwrap_or_else(|e| violation("scan-error", format!("{e}")));
                            c.seek(&key(k)).unwrap_or_else(|e| violation("seek-error", format!("{e}")));
                            let v = match c.key_value() {
                                Some(kv) if kv.key == key(k).as_slice() => kv.value.map(value_id),
                                _ => None,
                            };
                            LOp::Get(k, v)
                        }
                    }
                };
                let ret = clock.fetch_add(1, Ordering::SeqCst);
                hist.lock().unwrap().push(Event { thread: t, inv, ret, op });
            }
        }));
    }
    for h in handles {
        if h.join().is_err() {
            violation("client-panicked", "a client thread panicked".into());
        }
    }
    let work = kvs.verif().work_done();
    stop_daemons(&kvs, daemons, "");
    let h = hist.lock().unwrap().clone();
    if let Some(msg) = linz::reads_only_written_values(&h) {
        violation("read-returned-value-nobody-wrote", format!("{msg}; history {h:?}"));
    }
    if !linz::linearizable(&h, nkeys) {
        let class = if workload2 { "history-not-linearizable:batches-and-scans" } else { "history-not-linearizable:puts-dels-gets" };
        violation(class, format!("no linearization exists for {h:?}"));
    }
    let overlapped = h.iter().any(|a| h.iter().any(|b| a.thread != b.thread && a.inv < b.inv && b.inv < a.ret));
    let mut r = slot.lock().unwrap();
    let mut hh = 0u64;
    let mut sorted = h.clone();
    sorted.sort_by_key(|e| e.inv);
    for e in sorted.iter() {
        hh = rng::mix(&[hh, e.thread as u64, e.inv, e.ret]);
    }
    r.order_hash = hh;
    r.nontrivial = overlapped;
    r.steps = h.len() as u64;
    *r.probes.entry("linz_histories".into()).or_insert(0) += 1;
    *r.probes.entry("linz_background_work_units_inside_window".into()).or_insert(0) += work;
    *r.probes.entry(if workload2 { "linz_workload_batches_scans" } else { "linz_workload_puts_dels" }.into()).or_insert(0) += 1;
    r.sample = Some(serde_json::json!({"clients": n_clients, "keys": nkeys, "memtable_size_bytes": memtable, "history": format!("{h:?}")}));
    drop(r);
    drop(kvs);
    let _ = std::fs::remove_dir_all(&dir);
}

///////////////////////////////////////////// held cursor //////////////////////////////////////////

fn listing(c: &mut dyn Cursor) -> Result<Vec<(Vec<u8>, Vec<u8>)>, String> {
    let mut out = Vec::new();
    c.seek_to_first().map_err(|e| format!("{e}"))?;
    loop {
        c.next().map_err(|e| format!("{e}"))?;
        match c.key_value() {
            Some(kv) => out.push((kv.key.to_vec(), kv.value.map(|v| v.to_vec()).unwrap_or_default())),
            None => return Ok(out),
        }
        if out.len() > 10_000 {
            return Err("cursor does not terminate".into());
        }
    }
}

pub fn kvs_held_cursor(seed: u64, worker: usize, slot: &Slot) {
    let mut rng = Rng::new(seed);
    let dir = fresh_dir(worker, "cursor");
    let tight = rng.chance(1, 2);
    let mut o: Vec<(&str, String)> = vec![
        ("--memtable-size-bytes", rng.pick(&[0u64, 64, 256]).to_string()),
        ("--sst-cache-bytes", if tight { "0".to_string() } else { "65536".to_string() }),
        ("--l0-mandatory-compaction-threshold-files", "2".into()),
    ];
    if tight {
        o.push(("--max-open-files", rng.pick(&[8u64, 16]).to_string()));
    }
    // a third of the executions: offline verifier passes (trash clean-up) under the held cursor
    let with_verifier = rng.chance(1, 3);
    if with_verifier {
        o.push(("--mani-log-rollover-ratio", rng.pick(&[0u64, 1]).to_string()));
    }
    let opts = options(&dir, &o);
    let kvs = Arc::new(KeyValueStore::open(opts.clone()).unwrap_or_else(|e| violation("open-error", format!("{e}"))));
    let daemons = start_daemons(&kvs, rng.range(1, 2) as usize);
    let nkeys = 5usize;
    let second_writer = rng.chance(1, 3);
    let stop_writer = Arc::new(AtomicU64::new(0));
    let mut writer = None;
    if second_writer {
        let kvs2 = Arc::clone(&kvs);
        let stop = Arc::clone(&stop_writer);
        let mut rng2 = rng.fork();
        writer = Some(thread::spawn(move || {
            let mut id = 1_000_000u64;
            for _ in 0..6 {
                if stop.load(Ordering::SeqCst) != 0 {
                    break;
                }
                id += 1;
                let _ = kvs2.put(&key(rng2.usize_below(5)), &value(id, 40));
            }
        }));
    }
    // phase 1: some contents, spread over components
    let mut id = 0u64;
    let mut written: BTreeMap<Vec<u8>, u64> = BTreeMap::new();
    for _ in 0..rng.range(2, 6) {
        id += 1;
        let k = key(rng.usize_below(nkeys));
        kvs.put(&k, &value(id, 40)).unwrap_or_else(|e| violation("put-error", format!("{e}")));
        written.insert(k, id);
    }
    // open the held cursor A and its twin B; B's drain is the reference
    let lo: Bound<Vec<u8>> = Bound::Unbounded;
    let hi: Bound<Vec<u8>> = Bound::Unbounded;
    let mut a = kvs.range_scan(&lo, &hi).unwrap_or_else(|e| violation("scan-open-error", format!("{e}")));
    let reference = if second_writer {
        // with a writer in flight the twin may differ; the cursor's own first pass is the reference
        listing(&mut a).unwrap_or_else(|e| violation("held-cursor-error", e))
    } else {
        let mut b = kvs.range_scan(&lo, &hi).unwrap_or_else(|e| violation("scan-open-error", format!("{e}")));
        listing(&mut b).unwrap_or_else(|e| violation("twin-cursor-error", e))
    };
    let opened_at_id = id;
    if !second_writer {
        // "the contents the store had when the scan was opened": every write this thread had
        // completed before it opened the cursor, and nothing else (no other writer exists)
        let want: Vec<(Vec<u8>, u64)> = written.iter().map(|(k, v)| (k.clone(), *v)).collect();
        let got: Vec<(Vec<u8>, u64)> = reference.iter().map(|(k, v)| (k.clone(), value_id(v))).collect();
        if got != want {
            violation(
                "cursor-opened-without-the-contents-the-store-had",
                format!("the cursor lists {got:?}, the writes completed before it was opened are {want:?}"),
            );
        }
    }
    let verifier_passes = Arc::new(AtomicU64::new(0));
    let verifier = if with_verifier {
        let passes = Arc::clone(&verifier_passes);
        let n = rng.range(2, 6);
        Some(thread::spawn(move || {
            for _ in 0..n {
                // errors of the verifier itself are C04's and C08's business, not this scenario's
                if let Ok(mut v) = lsmtk::LsmVerifier::open(opts.clone()) {
                    let _ = v.verify();
                    passes.fetch_add(1, Ordering::SeqCst);
                }
                thread::sleep(std::time::Duration::ZERO);
            }
        }))
    } else {
        None
    };
    // phase 2: keep writing so that rollovers, flushes and compactions happen under the cursor
    let mut uses = 0;
    let mut hit_open_files_limit = false;
    for round in 0..rng.range(2, 5) {
        for _ in 0..rng.range(1, 4) {
            id += 1;
            if rng.chance(1, 5) {
                kvs.del(&key(rng.usize_below(nkeys))).unwrap_or_else(|e| violation("del-error", format!("{e}")));
            } else {
                kvs.put(&key(rng.usize_below(nkeys)), &value(id, 40)).unwrap_or_else(|e| violation("put-error", format!("{e}")));
            }
        }
        if rng.chance(1, 2) {
            kvs.verif_wait_flush_idle();
        }
        // use the held cursor
        let got = match rng.below(3) {
            0 => listing(&mut a),
            1 => {
                // backward pass
                (|| -> Result<Vec<(Vec<u8>, Vec<u8>)>, String> {
                    let mut out = Vec::new();
                    a.seek_to_last().map_err(|e| format!("{e}"))?;
                    loop {
                        a.prev().map_err(|e| format!("{e}"))?;
                        match a.key_value() {
                            Some(kv) => out.push((kv.key.to_vec(), kv.value.map(|v| v.to_vec()).unwrap_or_default())),
                            None => break,
                        }
                    }
                    out.reverse();
                    Ok(out)
                })()
            }
            _ => {
                // seek to each key in turn
                (|| -> Result<Vec<(Vec<u8>, Vec<u8>)>, String> {
                    let mut out = Vec::new();
                    for i in 0..nkeys {
                        a.seek(&key(i)).map_err(|e| format!("{e}"))?;
                        if let Some(kv) = a.key_value() {
                            if kv.key == key(i).as_slice() {
                                out.push((kv.key.to_vec(), kv.value.map(|v| v.to_vec()).unwrap_or_default()));
                            }
                        }
                    }
                    Ok(out)
                })()
            }
        };
        uses += 1;
        match got {
            Err(e) if e.contains("too-many-open-files") => {
                // the configured max_open_files was reached: an explicit resource-limit error,
                // counted, not judged (same rule as seqsim)
                hit_open_files_limit = true;
                break;
            }
            Err(e) => violation(
                &format!("held-cursor-error:{}", crate::panic_class(&e.chars().take(90).collect::<String>())),
                format!("round {round}: {e}"),
            ),
            Ok(l) => {
                if l != reference {
                    let later = l.iter().any(|(_, v)| v.len() >= 8 && value_id(v) > opened_at_id && value_id(v) < 1_000_000);
                    violation(
                        if later { "held-cursor-shows-write-made-after-open" } else { "held-cursor-contents-changed" },
                        format!("round {round}: cursor lists {:?}, listed {:?} when opened", short(&l), short(&reference)),
                    );
                }
            }
        }
    }
    drop(a);
    if let Some(v) = verifier {
        let _ = v.join();
    }
    stop_writer.store(1, Ordering::SeqCst);
    if let Some(w) = writer {
        let _ = w.join();
    }
    let work = kvs.verif().work_done();
    stop_daemons(&kvs, daemons, "");
    let mut r = slot.lock().unwrap();
    r.order_hash = rng::mix(&[seed, work, uses]);
    r.nontrivial = work > 0;
    r.steps = id;
    *r.probes.entry("cursor_uses_after_store_moved".into()).or_insert(0) += uses;
    *r.probes.entry("cursor_background_work_units_under_cursor".into()).or_insert(0) += work;
    *r.probes.entry("cursor_executions_with_second_writer".into()).or_insert(0) += second_writer as u64;
    *r.probes.entry("cursor_verifier_passes_under_cursor".into()).or_insert(0) += verifier_passes.load(Ordering::SeqCst);
    *r.probes.entry("cursor_use_ended_at_max_open_files_limit".into()).or_insert(0) += hit_open_files_limit as u64;
    r.sample = Some(serde_json::json!({"tight_files": tight, "second_writer": second_writer, "reference_len": reference.len(), "background_work": work}));
    drop(r);
    drop(kvs);
    let _ = std::fs::remove_dir_all(&dir);
}

fn short(l: &[(Vec<u8>, Vec<u8>)]) -> Vec<(String, u64)> {
    l.iter()
        .map(|(k, v)| (String::from_utf8_lossy(k).to_string(), if v.len() >= 8 { value_id(v) } else { 0 }))
        .collect()
}

////////////////////////////////////// verifier alongside the store ///////////////////////////////

/// C08 rider: writers, flush thread, compaction threads and a verifier thread running offline
/// passes at the same time.  Each writer owns its keys, so the final value of every key is
/// known; at the end every file the manifest lists exists and every key reads back.
pub fn kvs_with_verifier(seed: u64, worker: usize, slot: &Slot) {
    let mut rng = Rng::new(seed);
    let dir = fresh_dir(worker, "kvsver");
    let o: Vec<(&str, String)> = vec![
        ("--memtable-size-bytes", rng.pick(&[0u64, 64]).to_string()),
        ("--mani-log-rollover-ratio", rng.pick(&[0u64, 1]).to_string()),
        ("--l0-mandatory-compaction-threshold-files", "2".into()),
        ("--sst-cache-bytes", rng.pick(&[0u64, 65536]).to_string()),
    ];
    let opts = options(&dir, &o);
    // record the bytes written to the store manifest: needed to recognise the known verifier
    // repaired defect "digest removed by two transactions" when a pass fails with NotFound
    crate::fsx::install(&dir, None);
    let kvs = Arc::new(KeyValueStore::open(opts.clone()).unwrap_or_else(|e| violation("open-error", format!("{e}"))));
    let daemons = start_daemons(&kvs, rng.range(1, 2) as usize);
    let n_w = rng.range(1, 2) as usize;
    let finals: Arc<StdMutex<BTreeMap<Vec<u8>, Option<u64>>>> = Arc::new(StdMutex::new(BTreeMap::new()));
    let mut handles = Vec::new();
    for t in 0..n_w {
        let kvs = Arc::clone(&kvs);
        let finals = Arc::clone(&finals);
        let mut rng = rng.fork();
        let n = rng.range(4, 12);
        handles.push(thread::spawn(move || {
            for i in 0..n {
                let k = vec![b'w', b'0' + t as u8, b'0' + rng.below(3) as u8];
                let id = (t as u64) << 32 | i;
                if rng.chance(1, 6) {
                    kvs.del(&k).unwrap_or_else(|e| violation("del-error", format!("{e}")));
                    finals.lock().unwrap().insert(k, None);
                } else {
                    kvs.put(&k, &value(id, 40)).unwrap_or_else(|e| violation("put-error", format!("{e}")));
                    finals.lock().unwrap().insert(k, Some(id));
                }
            }
        }));
    }
    let passes = Arc::new(AtomicU64::new(0));
    let backoffs = Arc::new(AtomicU64::new(0));
    let known_c04 = Arc::new(AtomicU64::new(0));
    let verifier = {
        let opts = opts.clone();
        let known_c04 = Arc::clone(&known_c04);
        let passes = Arc::clone(&passes);
        let backoffs = Arc::clone(&backoffs);
        let n = rng.range(1, 4);
        thread::spawn(move || {
            for _ in 0..n {
                let mut v = match lsmtk::LsmVerifier::open(opts.clone()) {
                    Ok(v) => v,
                    Err(e) => violation("verifier-open-error", format!("{e}")),
                };
                match v.verify() {
                    Ok(()) => {}
                    Err(e) if lsmtk::error_code(&e) == Some(lsmtk::CODE_BACKOFF) => {
                        backoffs.fetch_add(1, Ordering::SeqCst);
                    }
                    Err(e) => {
                        let msg = format!("{e}");
                        if removed_twice(&msg) {
                            // repaired by f60d4cb / c8cb20d; reported if it ever returns
                            known_c04.fetch_add(1, Ordering::SeqCst);
                            violation("verifier-needs-file-it-already-unlinked:digest-removed-by-two-transactions", msg)
                        }
                        violation(
                            &format!("verifier-error:{}", crate::panic_class(&msg.chars().take(100).collect::<String>())),
                            msg,
                        )
                    }
                }
                passes.fetch_add(1, Ordering::SeqCst);
                thread::sleep(std::time::Duration::ZERO);
            }
        })
    };
    for h in handles {
        if h.join().is_err() {
            violation("client-panicked", "a writer panicked".into());
        }
    }
    if verifier.join().is_err() {
        violation("verifier-panicked", "the verifier thread panicked".into());
    }
    kvs.verif_wait_flush_idle();
    let work = kvs.verif().work_done();
    stop_daemons(&kvs, daemons, "");
    // one last complete pass with the store quiescent, then judge
    {
        let mut v = lsmtk::LsmVerifier::open(opts.clone()).unwrap_or_else(|e| violation("verifier-open-error", format!("{e}")));
        match v.verify() {
            Ok(()) => {}
            Err(e) if lsmtk::error_code(&e) == Some(lsmtk::CODE_BACKOFF) => {}
            Err(e) => {
                let msg = format!("{e}");
                if removed_twice(&msg) {
                    known_c04.fetch_add(1, Ordering::SeqCst);
                    violation("verifier-needs-file-it-already-unlinked:digest-removed-by-two-transactions", msg)
                } else {
                    violation("verifier-error-after-quiescence", msg)
                }
            }
        }
    }
    // every listed file exists
    for l in kvs.verif_tree().verif_levels().iter() {
        for f in l.iter() {
            let p = dir.join("sst").join(format!("{}.sst", f.0.hexdigest()));
            if !p.is_file() {
                violation("listed-file-missing", format!("{} is listed by the live tree but not on disk", f.0.hexdigest()));
            }
        }
    }
    // every key reads back its final value
    for (k, want) in finals.lock().unwrap().iter() {
        let mut t = false;
        let got = kvs.load(k, &mut t).unwrap_or_else(|e| violation("read-error-after-verifier-passes", format!("{e}")));
        if got.as_deref().map(value_id) != *want {
            dump_trace();
            dump_levels(&kvs, &dir);
            violation("contents-changed-under-verifier", format!("key {:?}: read {:?}, last write {:?}", String::from_utf8_lossy(k), got.as_deref().map(value_id), want));
        }
    }
    let levels_before = kvs.verif_tree().verif_levels();
    drop(kvs);
    // and again after a reopen
    let kvs = KeyValueStore::open(opts).unwrap_or_else(|e| violation("reopen-error-after-verifier-passes", format!("{e}")));
    // Known recovery defect F-C01-1 (reported under C01): reopen puts two key-touching files with
    // interleaved timestamp ranges that lived in different levels into one level, after which
    // reads are unsound for a reason that has nothing to do with file removal.  Same structural
    // diagnosis as storesim's exec.rs; the premise of the contents comparison is void then.
    let misordered = recovery_merged_levels(&levels_before, &kvs.verif_tree().verif_levels());
    for (k, want) in finals.lock().unwrap().iter() {
        if misordered {
            break;
        }
        let mut t = false;
        let got = kvs.load(k, &mut t).unwrap_or_else(|e| violation("read-error-after-reopen", format!("{e}")));
        if got.as_deref().map(value_id) != *want {
            dump_levels(&kvs, &dir);
            violation("contents-changed-after-verifier-and-reopen", format!("key {:?}: read {:?}, last write {:?}", String::from_utf8_lossy(k), got.as_deref().map(value_id), want));
        }
    }
    let mut r = slot.lock().unwrap();
    r.order_hash = rng::mix(&[seed, work, passes.load(Ordering::SeqCst), backoffs.load(Ordering::SeqCst)]);
    r.nontrivial = work > 0 && passes.load(Ordering::SeqCst) > 0;
    r.steps = work;
    *r.probes.entry("verifier_passes_alongside_store".into()).or_insert(0) += passes.load(Ordering::SeqCst);
    *r.probes.entry("verifier_backoffs_alongside_store".into()).or_insert(0) += backoffs.load(Ordering::SeqCst);
    *r.probes.entry("background_work_units_alongside_verifier".into()).or_insert(0) += work;
    *r.probes.entry("verifier_stopped_by_repaired_defect_removed_twice".into()).or_insert(0) += known_c04.load(Ordering::SeqCst);
    *r.probes.entry("reopen_comparison_void_known_defect_F-C01-1".into()).or_insert(0) += misordered as u64;
    r.sample = Some(serde_json::json!({"writers": n_w, "options": o.iter().map(|(k, v)| format!("{k}={v}")).collect::<Vec<_>>()}));
    drop(r);
    drop(kvs);
    let _ = crate::fsx::uninstall();
    let _ = std::fs::remove_dir_all(&dir);
}

////////////////////////////////// snapshot point under three roles ////////////////////////////////

/// C06 / C07 rider with three roles, which `kvs-linz` (2-3 symmetric clients, 2-5 operations)
/// reaches only rarely: a *batch writer* rewrites the same four keys with one id per batch, a
/// *fast writer* puts other keys (so that it can finish while a batch is still being inserted),
/// and a *reader* opens scans.  Every scan must show the four batch keys with one and the same
/// id (atomic visibility of a batch, C06), ids never go backwards between scans of one reader
/// (real-time order, C06), and a cursor that is held and listed again shows exactly what it
/// showed the first time (stable snapshot, C07).
pub fn kvs_batch_snapshot(seed: u64, worker: usize, slot: &Slot) {
    let mut rng = Rng::new(seed);
    let dir = fresh_dir(worker, "bsnap");
    let o: Vec<(&str, String)> = vec![
        ("--memtable-size-bytes", rng.pick(&[0u64, 64, 1 << 20, 1 << 20]).to_string()),
        ("--sst-cache-bytes", "65536".into()),
    ];
    let kvs = Arc::new(KeyValueStore::open(options(&dir, &o)).unwrap_or_else(|e| violation("open-error", format!("{e}"))));
    // cooperative fault point: one of the writes (whichever arrives n-th) is slow at one site
    let stall = if rng.chance(3, 4) {
        let site = *rng.pick(&["write:seq-assigned", "write:log-appended", "write:memtable-inserted"]);
        let arrival = rng.below(6) as i64;
        let yields = *rng.pick(&[300u64, 3000]);
        kvs.verif().set_stall(site, arrival, yields);
        format!("{site}#{arrival}x{yields}")
    } else {
        "none".to_string()
    };
    let daemons = start_daemons(&kvs, 1);
    let nb = rng.range(2, 5);
    let completed_batches = Arc::new(AtomicU64::new(0));
    let started_batches = Arc::new(AtomicU64::new(0));
    let opened_with_batch_in_flight = Arc::new(AtomicU64::new(0));
    let batch_writer = {
        let kvs = Arc::clone(&kvs);
        let completed = Arc::clone(&completed_batches);
        let started = Arc::clone(&started_batches);
        thread::spawn(move || {
            for i in 1..=nb {
                let mut wb = WriteBatch::with_capacity(4);
                for j in 0..4u8 {
                    wb.put(&[b'b', b'0' + j], &value(i, 16));
                }
                started.fetch_add(1, Ordering::SeqCst);
                kvs.write(wb).unwrap_or_else(|e| violation("write-error", format!("{e}")));
                completed.fetch_add(1, Ordering::SeqCst);
            }
        })
    };
    let n_fast = rng.range(1, 2);
    let mut fast = Vec::new();
    for t in 0..n_fast {
        let kvs = Arc::clone(&kvs);
        let n = rng.range(2, 8);
        fast.push(thread::spawn(move || {
            for i in 0..n {
                kvs.put(&[b'x', b'0' + t as u8, b'0' + (i % 3) as u8], &value(1000 + i, 16)).unwrap_or_else(|e| violation("put-error", format!("{e}")));
            }
        }));
    }
    let scans = Arc::new(AtomicU64::new(0));
    let mixed_seen = Arc::new(AtomicU64::new(0));
    let reader = {
        let kvs = Arc::clone(&kvs);
        let scans = Arc::clone(&scans);
        let n = rng.range(2, 6);
        let hold = rng.chance(1, 2);
        let completed = Arc::clone(&completed_batches);
        let started = Arc::clone(&started_batches);
        let in_flight_at_open = Arc::clone(&opened_with_batch_in_flight);
        thread::spawn(move || {
            let mut last_id = 0u64;
            for _ in 0..n {
                let lo: Bound<Vec<u8>> = Bound::Included(vec![b'b']);
                let hi: Bound<Vec<u8>> = Bound::Excluded(vec![b'c']);
                let completed_before_open = completed.load(Ordering::SeqCst);
                let mut c = kvs.range_scan(&lo, &hi).unwrap_or_else(|e| violation("scan-open-error", format!("{e}")));
                if started.load(Ordering::SeqCst) > completed.load(Ordering::SeqCst) {
                    in_flight_at_open.fetch_add(1, Ordering::SeqCst);
                }
                let first = listing(&mut c).unwrap_or_else(|e| violation("scan-error", e));
                scans.fetch_add(1, Ordering::SeqCst);
                let ids: Vec<u64> = first.iter().map(|(_, v)| value_id(v)).collect();
                if !(ids.is_empty() || (ids.len() == 4 && ids.iter().all(|i| *i == ids[0]))) {
                    violation("scan-shows-part-of-a-batch", format!("one snapshot lists the batch keys as {:?}", short(&first)));
                }
                // the contents the store had when the scan was opened include every batch whose
                // write had returned before the open (batch ids are 1, 2, ...)
                if ids.first().copied().unwrap_or(0) < completed_before_open {
                    violation(
                        "held-cursor-opened-without-a-batch-completed-before-the-open",
                        format!("{completed_before_open} batches had completed, the cursor lists {:?}", short(&first)),
                    );
                }
                if let Some(id) = ids.first() {
                    if *id < last_id {
                        violation("scan-goes-back-in-time", format!("batch id {id} after {last_id}"));
                    }
                    last_id = *id;
                }
                if hold {
                    // hold the cursor until the batch writer has completed another batch (or
                    // gives no sign of life): a batch in flight at the open lands meanwhile
                    let at_open = completed.load(Ordering::SeqCst);
                    for _ in 0..400 {
                        if completed.load(Ordering::SeqCst) > at_open {
                            break;
                        }
                        thread::sleep(std::time::Duration::ZERO);
                    }
                    let again = listing(&mut c).unwrap_or_else(|e| violation("held-cursor-error", e));
                    if again != first {
                        violation("held-cursor-contents-changed", format!("listed {:?} when opened, {:?} later", short(&first), short(&again)));
                    }
                }
            }
        })
    };
    let mut ok = batch_writer.join().is_ok();
    for f in fast {
        ok &= f.join().is_ok();
    }
    ok &= reader.join().is_ok();
    if !ok {
        violation("client-panicked", "a client thread panicked".into());
    }
    let work = kvs.verif().work_done();
    stop_daemons(&kvs, daemons, "");
    let mut r = slot.lock().unwrap();
    r.order_hash = rng::mix(&[seed, work, scans.load(Ordering::SeqCst), mixed_seen.load(Ordering::SeqCst)]);
    r.nontrivial = scans.load(Ordering::SeqCst) > 0;
    r.steps = scans.load(Ordering::SeqCst) + nb;
    *r.probes.entry("batch_snapshot_scans".into()).or_insert(0) += scans.load(Ordering::SeqCst);
    *r.probes.entry("batch_snapshot_scans_opened_with_a_batch_in_flight".into()).or_insert(0) += opened_with_batch_in_flight.load(Ordering::SeqCst);
    *r.probes.entry(format!("batch_snapshot_stall_{}", stall.split('#').next().unwrap_or("none"))).or_insert(0) += 1;
    r.sample = Some(serde_json::json!({"batches": nb, "fast_writers": n_fast, "slow_writer": stall, "options": o.iter().map(|(k, v)| format!("{k}={v}")).collect::<Vec<_>>()}));
    drop(r);
    drop(kvs);
    let _ = std::fs::remove_dir_all(&dir);
}

/////////////////////////////////////// soak: reads under a free-running store /////////////////////

/// C01 / C03 rider: the histories seqsim explores have background work placed between client
/// operations; here the flush thread and the compaction threads run freely under the scheduler
/// while writers (each owning its keys) write, delete, read their own keys back and scan their
/// own key range.  Read-your-writes per owner: a point read or a scan by the owner returns
/// exactly the owner's last completed write of each key.  At the end (quiescent) every key and
/// one full scan are compared with the final state.
pub fn kvs_soak(seed: u64, worker: usize, slot: &Slot) {
    let mut rng = Rng::new(seed);
    let dir = fresh_dir(worker, "soak");
    let o: Vec<(&str, String)> = vec![
        ("--memtable-size-bytes", rng.pick(&[0u64, 64, 200]).to_string()),
        ("--mani-log-rollover-ratio", rng.pick(&[0u64, 1, 2]).to_string()),
        ("--l0-mandatory-compaction-threshold-files", rng.pick(&[1u64, 2, 4]).to_string()),
        ("--sst-cache-bytes", rng.pick(&[0u64, 65536]).to_string()),
    ];
    let opts = options(&dir, &o);
    let kvs = Arc::new(KeyValueStore::open(opts.clone()).unwrap_or_else(|e| violation("open-error", format!("{e}"))));
    let daemons = start_daemons(&kvs, rng.range(1, 3) as usize);
    let n_w = rng.range(1, 3) as usize;
    let nkeys = rng.range(2, 5) as usize;
    let finals: Arc<StdMutex<BTreeMap<Vec<u8>, Option<u64>>>> = Arc::new(StdMutex::new(BTreeMap::new()));
    let reads = Arc::new(AtomicU64::new(0));
    let scans = Arc::new(AtomicU64::new(0));
    let mut handles = Vec::new();
    for t in 0..n_w {
        let kvs = Arc::clone(&kvs);
        let finals = Arc::clone(&finals);
        let reads = Arc::clone(&reads);
        let scans = Arc::clone(&scans);
        let mut rng = rng.fork();
        let n = rng.range(6, 40);
        handles.push(thread::spawn(move || {
            let mut mine: BTreeMap<Vec<u8>, Option<u64>> = BTreeMap::new();
            for i in 0..n {
                let k = vec![b'w', b'0' + t as u8, b'0' + rng.below(nkeys as u64) as u8];
                let id = ((t as u64) << 32 | i) + 1;
                match rng.below(12) {
                    0 | 1 => {
                        kvs.del(&k).unwrap_or_else(|e| violation("del-error", format!("{e}")));
                        mine.insert(k, None);
                    }
                    2 | 3 => {
                        // read one of my keys back
                        let mut tomb = false;
                        let got = kvs.load(&k, &mut tomb).unwrap_or_else(|e| violation("read-error", format!("{e}")));
                        let want = mine.get(&k).copied().flatten();
                        reads.fetch_add(1, Ordering::SeqCst);
                        if got.as_deref().map(value_id) != want {
                            violation(
                                "owner-read-differs-from-own-last-write",
                                format!("key {:?}: read {:?}, own last write {:?}", String::from_utf8_lossy(&k), got.as_deref().map(value_id), want),
                            );
                        }
                    }
                    4 => {
                        // scan my key range
                        let lo: Bound<Vec<u8>> = Bound::Included(vec![b'w', b'0' + t as u8]);
                        let hi: Bound<Vec<u8>> = Bound::Excluded(vec![b'w', b'0' + t as u8 + 1]);
                        let got = (|| -> Result<Vec<(Vec<u8>, u64)>, String> {
                            let mut c = kvs.range_scan(&lo, &hi).map_err(|e| format!("{e}"))?;
                            c.seek_to_first().map_err(|e| format!("{e}"))?;
                            let mut out = Vec::new();
                            loop {
                                c.next().map_err(|e| format!("{e}"))?;
                                match c.key_value() {
                                    Some(kv) => {
                                        if let Some(v) = kv.value {
                                            out.push((kv.key.to_vec(), value_id(v)));
                                        }
                                    }
                                    None => break,
                                }
                            }
                            Ok(out)
                        })()
                        .unwrap_or_else(|e| violation("scan-error", e));
                        let want: Vec<(Vec<u8>, u64)> = mine.iter().filter_map(|(k, v)| v.map(|v| (k.clone(), v))).collect();
                        scans.fetch_add(1, Ordering::SeqCst);
                        if got != want {
                            violation("owner-scan-differs-from-own-last-writes", format!("scan {:?}, own state {:?}", short_ids(&got), short_ids(&want)));
                        }
                    }
                    _ => {
                        kvs.put(&k, &value(id, 24)).unwrap_or_else(|e| violation("put-error", format!("{e}")));
                        mine.insert(k, Some(id));
                    }
                }
            }
            let mut f = finals.lock().unwrap();
            for (k, v) in mine {
                f.insert(k, v);
            }
        }));
    }
    for h in handles {
        if h.join().is_err() {
            violation("client-panicked", "a client thread panicked".into());
        }
    }
    kvs.verif_wait_flush_idle();
    let work = kvs.verif().work_done();
    stop_daemons(&kvs, daemons, "");
    for (k, want) in finals.lock().unwrap().iter() {
        let mut t = false;
        let got = kvs.load(k, &mut t).unwrap_or_else(|e| violation("read-error-at-end", format!("{e}")));
        if got.as_deref().map(value_id) != *want {
            dump_levels(&kvs, &dir);
            violation("final-read-differs-from-last-write", format!("key {:?}: read {:?}, last write {:?}", String::from_utf8_lossy(k), got.as_deref().map(value_id), want));
        }
    }
    {
        let lo: Bound<Vec<u8>> = Bound::Unbounded;
        let hi: Bound<Vec<u8>> = Bound::Unbounded;
        let mut c = kvs.range_scan(&lo, &hi).unwrap_or_else(|e| violation("scan-error-at-end", format!("{e}")));
        c.seek_to_first().unwrap_or_else(|e| violation("scan-error-at-end", format!("{e}")));
        let mut got = Vec::new();
        loop {
            c.next().unwrap_or_else(|e| violation("scan-error-at-end", format!("{e}")));
            match c.key_value() {
                Some(kv) => {
                    if let Some(v) = kv.value {
                        got.push((kv.key.to_vec(), value_id(v)));
                    }
                }
                None => break,
            }
        }
        let want: Vec<(Vec<u8>, u64)> = finals.lock().unwrap().iter().filter_map(|(k, v)| v.map(|v| (k.clone(), v))).collect();
        if got != want {
            violation("final-scan-differs-from-last-writes", format!("scan {:?}, state {:?}", short_ids(&got), short_ids(&want)));
        }
    }
    let mut r = slot.lock().unwrap();
    r.order_hash = rng::mix(&[seed, work, reads.load(Ordering::SeqCst), scans.load(Ordering::SeqCst)]);
    r.nontrivial = work > 0;
    r.steps = work;
    *r.probes.entry("soak_owner_reads_under_background_work".into()).or_insert(0) += reads.load(Ordering::SeqCst);
    *r.probes.entry("soak_owner_scans_under_background_work".into()).or_insert(0) += scans.load(Ordering::SeqCst);
    *r.probes.entry("soak_background_work_units".into()).or_insert(0) += work;
    let depth = kvs.verif_tree().verif_levels().iter().filter(|l| !l.is_empty()).count() as u64;
    *r.probes.entry(format!("soak_final_tree_occupied_levels_{}", depth.min(6))).or_insert(0) += 1;
    r.sample = Some(serde_json::json!({"writers": n_w, "keys_per_writer": nkeys, "options": o.iter().map(|(k, v)| format!("{k}={v}")).collect::<Vec<_>>()}));
    drop(r);
    drop(kvs);
    let _ = std::fs::remove_dir_all(&dir);
}

/// C01 / C03 rider in tree mode: ingesting threads that own disjoint key sets ingest small tables
/// (several versions and tombstones per key, timestamps increasing per owner, interleaved between
/// owners) while 1-3 compaction threads run freely; after every ingest the owner reads its keys
/// back; every key and one full scan are compared at quiescence.
pub fn tree_soak(seed: u64, worker: usize, slot: &Slot) {
    let mut rng = Rng::new(seed);
    let dir = fresh_dir(worker, "tsoak");
    let o: Vec<(&str, String)> = vec![
        ("--l0-mandatory-compaction-threshold-files", rng.pick(&[1u64, 2, 4]).to_string()),
        ("--sst-cache-bytes", rng.pick(&[0u64, 65536]).to_string()),
        ("--mani-log-rollover-ratio", rng.pick(&[0u64, 1, 2]).to_string()),
    ];
    let tree = Arc::new(LsmTree::open(options(&dir.join("db"), &o)).unwrap_or_else(|e| violation("open-error", format!("{e}"))));
    let n_clients = rng.range(1, 3) as usize;
    let nkeys = rng.range(2, 5) as usize;
    // plans[c] = list of (table path, state of c's keys after ingesting it)
    let mut plans: Vec<Vec<(PathBuf, BTreeMap<Vec<u8>, Option<u64>>)>> = vec![Vec::new(); n_clients];
    let mut states: Vec<BTreeMap<Vec<u8>, Option<u64>>> = vec![BTreeMap::new(); n_clients];
    let mut ts = 0u64;
    let rounds = rng.range(3, 10);
    for f in 0..rounds {
        for c in 0..n_clients {
            if rng.chance(1, 4) {
                continue;
            }
            let path = dir.join(format!("in-{c}-{f}.sst"));
            let mut b = SstBuilder::new(SstOptions::default(), &path).unwrap_or_else(|e| violation("builder-error", format!("{e}")));
            let mut keys: Vec<usize> = (0..nkeys).filter(|_| rng.chance(1, 2)).collect();
            if keys.is_empty() {
                keys.push(rng.usize_below(nkeys));
            }
            for k in keys {
                let kb = vec![b'a' + c as u8, b'0' + k as u8];
                // one or two versions of the key in this table, newest first in the file
                let versions = rng.range(1, 2);
                let base = ts;
                ts += versions;
                for v in (1..=versions).rev() {
                    let t = base + v;
                    if rng.chance(1, 5) {
                        b.del(&kb, t).unwrap_or_else(|e| violation("builder-error", format!("{e}")));
                        if v == versions {
                            states[c].insert(kb.clone(), None);
                        }
                    } else {
                        b.put(&kb, t, &value(t, 30)).unwrap_or_else(|e| violation("builder-error", format!("{e}")));
                        if v == versions {
                            states[c].insert(kb.clone(), Some(t));
                        }
                    }
                }
            }
            drop(b.seal().unwrap_or_else(|e| violation("builder-error", format!("{e}"))));
            plans[c].push((path, states[c].clone()));
        }
    }
    let compactors = rng.range(1, 3) as usize;
    let mut daemons = Vec::new();
    for _ in 0..compactors {
        let t = Arc::clone(&tree);
        daemons.push(thread::spawn(move || t.compaction_thread().map_err(|e| format!("{e}"))));
    }
    let reads = Arc::new(AtomicU64::new(0));
    let mut handles = Vec::new();
    for plan in plans {
        let t = Arc::clone(&tree);
        let reads = Arc::clone(&reads);
        handles.push(thread::spawn(move || {
            for (path, state) in plan {
                t.ingest(&path).unwrap_or_else(|e| violation("ingest-error", format!("{e}")));
                for (k, want) in state.iter() {
                    let mut tomb = false;
                    let got = t.load(k, &mut tomb).unwrap_or_else(|e| violation("read-error", format!("{e}")));
                    reads.fetch_add(1, Ordering::SeqCst);
                    if got.as_deref().map(value_id) != *want {
                        violation(
                            "owner-read-differs-from-own-last-ingest",
                            format!("key {:?}: read {:?}, newest ingested version {:?}", String::from_utf8_lossy(k), got.as_deref().map(value_id), want),
                        );
                    }
                }
            }
        }));
    }
    for h in handles {
        if h.join().is_err() {
            violation("client-panicked", "an ingesting thread panicked".into());
        }
    }
    let work = tree.verif().work_done();
    tree.verif_request_stop();
    for d in daemons {
        match d.join() {
            Ok(Ok(())) => {}
            Ok(Err(e)) => violation("daemon-returned-error", e),
            Err(_) => violation("daemon-panicked", "compaction thread panicked".into()),
        }
    }
    let mut finals: BTreeMap<Vec<u8>, Option<u64>> = BTreeMap::new();
    for st in states {
        finals.extend(st);
    }
    for (k, want) in finals.iter() {
        let mut tomb = false;
        let got = tree.load(k, &mut tomb).unwrap_or_else(|e| violation("read-error-at-end", format!("{e}")));
        if got.as_deref().map(value_id) != *want {
            violation("final-read-differs-from-newest-version", format!("key {:?}: read {:?}, newest version {:?}", String::from_utf8_lossy(k), got.as_deref().map(value_id), want));
        }
    }
    {
        let lo: Bound<Vec<u8>> = Bound::Unbounded;
        let hi: Bound<Vec<u8>> = Bound::Unbounded;
        let mut c = tree.range_scan(&lo, &hi).unwrap_or_else(|e| violation("scan-error-at-end", format!("{e}")));
        c.seek_to_first().unwrap_or_else(|e| violation("scan-error-at-end", format!("{e}")));
        let mut got = Vec::new();
        loop {
            c.next().unwrap_or_else(|e| violation("scan-error-at-end", format!("{e}")));
            match c.key_value() {
                Some(kv) => {
                    if let Some(v) = kv.value {
                        got.push((kv.key.to_vec(), value_id(v)));
                    }
                }
                None => break,
            }
        }
        let want: Vec<(Vec<u8>, u64)> = finals.iter().filter_map(|(k, v)| v.map(|v| (k.clone(), v))).collect();
        if got != want {
            violation("final-scan-differs-from-newest-versions", format!("scan {:?}, state {:?}", short_ids(&got), short_ids(&want)));
        }
    }
    let mut r = slot.lock().unwrap();
    r.order_hash = rng::mix(&[seed, work, reads.load(Ordering::SeqCst)]);
    r.nontrivial = work > 0;
    r.steps = work;
    *r.probes.entry("tree_soak_owner_reads_under_background_work".into()).or_insert(0) += reads.load(Ordering::SeqCst);
    *r.probes.entry("tree_soak_background_work_units".into()).or_insert(0) += work;
    r.sample = Some(serde_json::json!({"clients": n_clients, "keys_per_client": nkeys, "rounds": rounds, "compaction_threads": compactors, "options": o.iter().map(|(k, v)| format!("{k}={v}")).collect::<Vec<_>>()}));
    drop(r);
    drop(tree);
    let _ = std::fs::remove_dir_all(&dir);
}

/////////////////////////////////// crash images of concurrent runs ///////////////////////////////

/// C02 rider: crashsim cuts sequential histories; here 1-3 writers run concurrently with the flush
/// and compaction threads under the scheduler (so appends and fdatasyncs are coalesced across
/// writers, memtables roll over with writers in flight), every mutating system call is recorded,
/// and the recorded trace is cut at seeded points.  Each cut is materialised under persistence
/// model A, B0 or Bn and reopened with the real code.  Writers own their keys, so per owner the
/// recovered state of its keys must equal the state after its last acknowledged operation, or
/// after the one operation that was in flight at the cut (wholly), and nothing else.
pub fn kvs_crash(seed: u64, worker: usize, slot: &Slot) {
    use crate::image::{Image, Persist};
    let mut rng = Rng::new(seed);
    let dir = fresh_dir(worker, "kcrash");
    let root = dir.join("live");
    let o: Vec<(&str, String)> = vec![
        ("--memtable-size-bytes", rng.pick(&[0u64, 64, 200, 4096]).to_string()),
        ("--mani-log-rollover-ratio", rng.pick(&[0u64, 1, 2]).to_string()),
        ("--l0-mandatory-compaction-threshold-files", rng.pick(&[1u64, 2, 4]).to_string()),
    ];
    let opts = options(&root, &o);
    crate::fsx::install(&root, None);
    let kvs = Arc::new(KeyValueStore::open(opts.clone()).unwrap_or_else(|e| violation("open-error", format!("{e}"))));
    let daemons = start_daemons(&kvs, rng.range(1, 2) as usize);
    let n_w = rng.range(1, 3) as usize;
    // per owner: list of (inv, ack, effects)
    type Effects = Vec<(Vec<u8>, Option<u64>)>;
    let logs: Arc<StdMutex<Vec<Vec<(usize, usize, Effects)>>>> = Arc::new(StdMutex::new(vec![Vec::new(); n_w]));
    let mut handles = Vec::new();
    for t in 0..n_w {
        let kvs = Arc::clone(&kvs);
        let logs = Arc::clone(&logs);
        let mut rng = rng.fork();
        let n = rng.range(3, 14);
        handles.push(thread::spawn(move || {
            for i in 0..n {
                let k = |j: u64| vec![b'w', b'0' + t as u8, b'0' + j as u8];
                let id = ((t as u64) << 32 | i) + 1;
                let mut effects: Effects = Vec::new();
                let inv = crate::fsx::trace_len();
                match rng.below(8) {
                    0 => {
                        let key = k(rng.below(3));
                        kvs.del(&key).unwrap_or_else(|e| violation("del-error", format!("{e}")));
                        effects.push((key, None));
                    }
                    1 | 2 => {
                        let mut wb = WriteBatch::with_capacity(3);
                        for j in 0..3u64 {
                            if rng.chance(2, 3) {
                                let key = k(j);
                                if rng.chance(1, 5) {
                                    wb.del(&key);
                                    effects.push((key, None));
                                } else {
                                    wb.put(&key, &value(id * 8 + j, 24));
                                    effects.push((key, Some(id * 8 + j)));
                                }
                            }
                        }
                        if effects.is_empty() {
                            let key = k(0);
                            wb.put(&key, &value(id * 8, 24));
                            effects.push((key, Some(id * 8)));
                        }
                        kvs.write(wb).unwrap_or_else(|e| violation("write-error", format!("{e}")));
                    }
                    _ => {
                        let key = k(rng.below(3));
                        kvs.put(&key, &value(id * 8, 24)).unwrap_or_else(|e| violation("put-error", format!("{e}")));
                        effects.push((key, Some(id * 8)));
                    }
                }
                let ack = crate::fsx::trace_len();
                logs.lock().unwrap()[t].push((inv, ack, effects));
            }
        }));
    }
    for h in handles {
        if h.join().is_err() {
            violation("client-panicked", "a writer panicked".into());
        }
    }
    kvs.verif_wait_flush_idle();
    let work = kvs.verif().work_done();
    stop_daemons(&kvs, daemons, "");
    drop(kvs);
    let trace = crate::fsx::uninstall().map(|c| c.trace).unwrap_or_default();
    let logs = logs.lock().unwrap().clone();
    // cut points: seeded, biased into the extents of client writes
    let mut cuts: BTreeSet<usize> = BTreeSet::new();
    let mutating: Vec<usize> = trace.iter().enumerate().filter(|(_, e)| e.is_mutation()).map(|(i, _)| i).collect();
    if mutating.is_empty() {
        violation("harness:no-system-calls-recorded", "the recording seam saw nothing".into());
    }
    let all_writes: Vec<(usize, usize)> = logs.iter().flatten().map(|(a, b, _)| (*a, *b)).collect();
    for _ in 0..rng.range(5, 9) {
        if rng.chance(2, 3) && !all_writes.is_empty() {
            let (a, b) = all_writes[rng.usize_below(all_writes.len())];
            cuts.insert(a + rng.usize_below((b - a).max(1) + 1));
        } else {
            cuts.insert(mutating[rng.usize_below(mutating.len())]);
        }
    }
    let mut images = 0u64;
    let mut inflight_seen = 0u64;
    let mut differs_from_a = 0u64;
    for (ci, k) in cuts.iter().copied().enumerate() {
        let mut img = Image::new();
        for ev in trace[..k.min(trace.len())].iter() {
            img.step(ev);
        }
        let persists: Vec<Persist> = if img.has_unsynced() {
            differs_from_a += 1;
            vec![Persist::A, Persist::BNone, Persist::BSome(rng.next_u64())]
        } else {
            vec![Persist::A]
        };
        for (pi, persist) in persists.into_iter().enumerate() {
            let iroot = dir.join(format!("img-{ci}-{pi}"));
            img.materialize(&iroot, persist).unwrap_or_else(|e| violation("harness:materialize", format!("{e}")));
            images += 1;
            let o2 = options(&iroot, &o);
            let re = match KeyValueStore::open(o2) {
                Ok(s) => s,
                Err(e) => violation(
                    &format!("reopen-failed-after-crash:{}", crate::panic_class(&format!("{e}").chars().take(90).collect::<String>())),
                    format!("cut {k} of {} model {persist:?}: {e}", trace.len()),
                ),
            };
            for (t, log) in logs.iter().enumerate() {
                // candidate prefixes of this owner's operations
                let acked = log.iter().take_while(|(_, ack, _)| *ack <= k).count();
                let mut candidates = vec![acked];
                if acked < log.len() && log[acked].0 < k {
                    candidates.push(acked + 1);
                    inflight_seen += 1;
                }
                let mut got: BTreeMap<Vec<u8>, Option<u64>> = BTreeMap::new();
                for j in 0..3u8 {
                    let key = vec![b'w', b'0' + t as u8, b'0' + j];
                    let mut tomb = false;
                    let v = re.load(&key, &mut tomb).unwrap_or_else(|e| violation("read-error-after-crash", format!("cut {k} model {persist:?}: {e}")));
                    got.insert(key, v.as_deref().map(value_id));
                }
                let matches = candidates.iter().any(|p| {
                    let mut st: BTreeMap<Vec<u8>, Option<u64>> = BTreeMap::new();
                    for j in 0..3u8 {
                        st.insert(vec![b'w', b'0' + t as u8, b'0' + j], None);
                    }
                    for (_, _, eff) in log[..*p].iter() {
                        for (key, v) in eff {
                            st.insert(key.clone(), *v);
                        }
                    }
                    st == got
                });
                if !matches {
                    let class = if candidates.len() == 1 { "acknowledged-state-not-recovered" } else { "neither-before-nor-after-the-write-in-flight" };
                    // every reopen of an image is a recovery: known defect F-C01-1 / F-C02-1
                    let (prefix, why) = match recovery_misorder_signature(&re, &iroot) {
                        Some(m) => ("misordered-levels-from-reopen:", format!(" [{m}]")),
                        None => ("", String::new()),
                    };
                    violation(
                        &format!("{prefix}{class}:{}", match persist { Persist::A => "A", Persist::BNone => "B0", Persist::BSome(_) => "Bn" }),
                        format!(
                            "cut {k} of {} model {persist:?}: owner {t} recovered {:?}; acknowledged operations {acked} of {}, in flight: {}{why}",
                            trace.len(),
                            got.iter().map(|(k, v)| (String::from_utf8_lossy(k).to_string(), *v)).collect::<Vec<_>>(),
                            log.len(),
                            candidates.len() == 2
                        ),
                    );
                }
            }
            drop(re);
            let _ = std::fs::remove_dir_all(&iroot);
        }
    }
    let mut r = slot.lock().unwrap();
    r.order_hash = rng::mix(&[seed, work, trace.len() as u64]);
    r.nontrivial = work > 0 && inflight_seen > 0;
    r.steps = trace.len() as u64;
    *r.probes.entry("crash_images_of_concurrent_runs".into()).or_insert(0) += images;
    *r.probes.entry("crash_cuts_with_a_write_in_flight".into()).or_insert(0) += inflight_seen;
    *r.probes.entry("crash_cuts_with_unsynced_bytes".into()).or_insert(0) += differs_from_a;
    *r.probes.entry("crash_recorded_system_calls".into()).or_insert(0) += trace.len() as u64;
    r.sample = Some(serde_json::json!({"writers": n_w, "cuts": cuts.len(), "options": o.iter().map(|(k, v)| format!("{k}={v}")).collect::<Vec<_>>()}));
    drop(r);
    let _ = std::fs::remove_dir_all(&dir);
}

fn short_ids(l: &[(Vec<u8>, u64)]) -> Vec<(String, u64)> {
    l.iter().map(|(k, v)| (String::from_utf8_lossy(k).to_string(), *v)).collect()
}

/// The verifier failed with NotFound on trash/<digest>.sst: did two store transactions remove
/// that digest (known defect F-C04-1)?  Decided from the bytes written to mani/MANIFEST.
type Levels = Vec<Vec<(setsum::Setsum, Vec<u8>, Vec<u8>, u64, u64, u64)>>;

fn recovery_merged_levels(before: &Levels, after: &Levels) -> bool {
    let mut level_of = std::collections::HashMap::new();
    for (li, l) in before.iter().enumerate() {
        for f in l.iter() {
            level_of.insert(f.0.hexdigest(), li);
        }
    }
    for (li, l) in after.iter().enumerate() {
        for a in 0..l.len() {
            for b in a + 1..l.len() {
                let (fa, fb) = (&l[a], &l[b]);
                let touch = fa.1 <= fb.2 && fb.1 <= fa.2;
                let interleaved = fa.3 <= fb.4 && fb.3 <= fa.4;
                let (oa, ob) = (level_of.get(&fa.0.hexdigest()), level_of.get(&fb.0.hexdigest()));
                let lost_order = if li == 0 { !(oa == Some(&0) && ob == Some(&0)) } else { oa != ob };
                if touch && interleaved && oa.is_some() && ob.is_some() && lost_order {
                    return true;
                }
            }
        }
    }
    false
}

/// Signature of the known recovery defect F-C01-1 on a store that has just been opened (same rule
/// as storesim's `recovery_misorder_signature`): a level with two key-touching files whose
/// timestamp ranges interleave, and a point lookup through the tree that disagrees with the
/// newest version present in the tree's own files.
fn recovery_misorder_signature(kvs: &KeyValueStore, dir: &std::path::Path) -> Option<String> {
    use sst::Cursor;
    let levels = kvs.verif_tree().verif_levels();
    let mut pair = None;
    'outer: for (li, l) in levels.iter().enumerate() {
        for a in 0..l.len() {
            for b in a + 1..l.len() {
                let (fa, fb) = (&l[a], &l[b]);
                if fa.1 <= fb.2 && fb.1 <= fa.2 && fa.3 <= fb.4 && fb.3 <= fa.4 {
                    pair = Some(format!("L{li} holds {} ts{}..{} and {} ts{}..{}", &fa.0.hexdigest()[..8], fa.3, fa.4, &fb.0.hexdigest()[..8], fb.3, fb.4));
                    break 'outer;
                }
            }
        }
    }
    let pair = pair?;
    let mut newest: BTreeMap<Vec<u8>, (u64, Option<Vec<u8>>)> = BTreeMap::new();
    for l in levels.iter() {
        for f in l.iter() {
            let p = dir.join("sst").join(format!("{}.sst", f.0.hexdigest()));
            let t = sst::Sst::<sst::file_manager::FileHandle>::new(sst::SstOptions::default(), &p).ok()?;
            let mut c = t.cursor();
            c.seek_to_first().ok()?;
            while c.next().is_ok() {
                match c.key_value() {
                    Some(kv) => {
                        let newer = newest.get(kv.key).map(|(t, _)| *t < kv.timestamp).unwrap_or(true);
                        if newer {
                            newest.insert(kv.key.to_vec(), (kv.timestamp, kv.value.map(|v| v.to_vec())));
                        }
                    }
                    None => break,
                }
            }
        }
    }
    for (k, (ts, v)) in newest.iter() {
        let mut tomb = false;
        if let Ok(got) = kvs.verif_tree().load(k, &mut tomb) {
            if got != *v {
                return Some(format!("{pair}; lookup of {:?} disagrees with the newest version @{ts} in the tree's files", String::from_utf8_lossy(k)));
            }
        }
    }
    None
}

fn dump_levels(kvs: &KeyValueStore, dir: &std::path::Path) {
    use sst::Cursor;
    if std::env::var("SCHEDSIM_VERBOSE").is_err() {
        return;
    }
    for (i, l) in kvs.verif_tree().verif_levels().iter().enumerate() {
        for f in l.iter() {
            let p = dir.join("sst").join(format!("{}.sst", f.0.hexdigest()));
            eprint!("L{i} {} [{}..{}] ts {}..{}:", &f.0.hexdigest()[..8], String::from_utf8_lossy(&f.1), String::from_utf8_lossy(&f.2), f.3, f.4);
            if let Ok(t) = sst::Sst::<sst::file_manager::FileHandle>::new(sst::SstOptions::default(), &p) {
                let mut c = t.cursor();
                let _ = c.seek_to_first();
                while c.next().is_ok() {
                    match c.key_value() {
                        Some(kv) => eprint!(" {}@{}{}", String::from_utf8_lossy(kv.key), kv.timestamp, if kv.value.is_none() { "(del)" } else { "" }),
                        None => break,
                    }
                }
            } else {
                eprint!(" <unreadable>");
            }
            eprintln!();
        }
    }
}

fn dump_trace() {
    if std::env::var("SCHEDSIM_VERBOSE").is_err() {
        return;
    }
    let mut names: BTreeMap<u64, String> = BTreeMap::new();
    for ev in crate::fsx::trace_since(0).iter() {
        match ev {
            crate::fsx::Ev::Open { h, path, created, .. } => {
                names.insert(*h, path.clone());
                if *created {
                    eprintln!("create {path}");
                }
            }
            crate::fsx::Ev::Write { h, data, .. } => {
                let n = names.get(h).cloned().unwrap_or_default();
                if n.contains("MANIFEST") {
                    eprintln!("write {n}: {}", String::from_utf8_lossy(data).replace('\n', " | "));
                } else {
                    eprintln!("write {n}: {} bytes", data.len());
                }
            }
            crate::fsx::Ev::Open { .. } | crate::fsx::Ev::Sync { .. } | crate::fsx::Ev::Mark(_) => {}
            other => eprintln!("{other:?}"),
        }
    }
}

fn removed_twice(msg: &str) -> bool {
    if !msg.contains("NotFound") {
        return false;
    }
    let pos = match msg.find("/trash/") {
        Some(p) => p,
        None => return false,
    };
    let digest: String = msg[pos + 7..].chars().take(64).collect();
    let needle = format!("-{digest}");
    let mut handles = std::collections::BTreeSet::new();
    let mut n = 0;
    for ev in crate::fsx::trace_since(0).iter() {
        match ev {
            crate::fsx::Ev::Open { h, path, .. } if path == "mani/MANIFEST" => {
                handles.insert(*h);
            }
            crate::fsx::Ev::Write { h, data, .. } if handles.contains(h) => {
                let text = String::from_utf8_lossy(data);
                n += text.matches(&needle).count();
            }
            _ => {}
        }
    }
    n >= 2
}

/////////////////////////////////////////////// liveness ///////////////////////////////////////////

fn thresholds(rng: &mut Rng) -> (Vec<(&'static str, String)>, &'static str) {
    let ordered = rng.chance(1, 2);
    let mut o: Vec<(&'static str, String)> = Vec::new();
    if ordered {
        let mandatory = rng.range(1, 4);
        let stall = mandatory + rng.range(0, 3);
        let mcf = stall + rng.range(1, 3);
        o.push(("--l0-mandatory-compaction-threshold-files", mandatory.to_string()));
        o.push(("--l0-write-stall-threshold-files", stall.max(1).to_string()));
        o.push(("--max-compaction-files", mcf.to_string()));
        if rng.chance(1, 3) {
            // a byte limit small enough to bite: level-0 compactions are exempt from it by design
            o.push(("--max-compaction-bytes", rng.pick(&[2048u64, 4096, 8192]).to_string()));
        }
    } else {
        o.push(("--l0-mandatory-compaction-threshold-files", rng.range(1, 4).to_string()));
        o.push(("--l0-write-stall-threshold-files", rng.pick(&[1u64, 2, 3, 4, 12]).to_string()));
        o.push(("--max-compaction-files", rng.pick(&[1u64, 2, 3, 64]).to_string()));
        if rng.chance(1, 3) {
            o.push(("--max-open-files", rng.pick(&[2u64, 3, 4, 8]).to_string()));
        }
        if rng.chance(1, 3) {
            o.push(("--max-compaction-bytes", rng.pick(&[4096u64, 16384]).to_string()));
        }
        if rng.chance(1, 4) {
            o.push(("--l0-write-stall-threshold-bytes", rng.pick(&[4096u64, 65536]).to_string()));
        }
    }
    (o, if ordered { "ordered" } else { "adversarial" })
}

/// C04 rider for scenarios in which ingests really stall: after the store has come to rest every
/// manifest fragment must pass the manifest verifier (each transaction continues from the previous
/// output and balances), i.e. an ingest that slept through a compaction recorded the ledger of
/// the tree as it was when it woke up, not as it was when it went to sleep.
fn ledger_after_stalls(dir: &std::path::Path) {
    let mv = match lsmtk::ManifestVerifier::open() {
        Ok(mv) => mv,
        Err(e) => violation("harness:manifest-verifier", format!("{e}")),
    };
    let mut frags: Vec<PathBuf> = std::fs::read_dir(dir.join("mani"))
        .map(|d| d.filter_map(|e| e.ok().map(|e| e.path())).collect())
        .unwrap_or_default();
    frags.retain(|p| p.file_name().map(|n| n.to_string_lossy().starts_with("MANIFEST") && !n.to_string_lossy().ends_with(".tmp")).unwrap_or(false));
    frags.sort();
    for f in frags {
        if let Err(e) = mv.verify(&f) {
            violation(
                &format!("ledger-broken-after-stalled-ingests:{}", crate::panic_class(&format!("{e}").chars().take(110).collect::<String>())),
                format!("{}: {e}", f.display()),
            );
        }
    }
}

pub fn kvs_liveness(seed: u64, worker: usize, slot: &Slot) {
    let mut rng = Rng::new(seed);
    let dir = fresh_dir(worker, "live");
    let (mut o, tag) = thresholds(&mut rng);
    o.push(("--memtable-size-bytes", rng.pick(&[0u64, 64]).to_string()));
    // One execution in three starts from a full tower (see tree_liveness): sixteen generations of
    // key 0 written and flushed one by one with the thresholds out of the way and no compaction,
    // then a reopen.  Here the thread that stalls is the flush thread.
    let mut trng = Rng::new(rng::mix(&[seed, 0x746f776572]));
    let tower = trng.chance(1, 3);
    if tower {
        let pre: Vec<(&'static str, String)> = vec![
            ("--l0-mandatory-compaction-threshold-files", "64".to_string()),
            ("--l0-write-stall-threshold-files", "64".to_string()),
            ("--max-compaction-files", "64".to_string()),
            ("--memtable-size-bytes", "0".to_string()),
        ];
        let k0 = KeyValueStore::open(options(&dir, &pre)).unwrap_or_else(|e| violation("open-error", format!("{e}")));
        for g in 0..16u64 {
            for k in 0..6 {
                if k == 0 || trng.chance(1, 3) {
                    k0.put(&key(k), &value(g << 8 | k as u64, 30)).unwrap_or_else(|e| violation("write-error", format!("tower prelude: {e}")));
                }
            }
            let ctl = k0.verif();
            ctl.set_return_when_idle(true);
            let r = k0.memtable_thread();
            ctl.set_return_when_idle(false);
            r.unwrap_or_else(|e| violation("daemon-returned-error", format!("tower prelude flush: {e}")));
        }
        drop(k0);
    }
    let kvs = Arc::new(KeyValueStore::open(options(&dir, &o)).unwrap_or_else(|e| violation("open-error", format!("{e}"))));
    let compactors = rng.range(1, 3) as usize;
    let n_w = rng.range(2, 3) as usize;
    let mof: Option<usize> = o.iter().find(|(k, _)| *k == "--max-open-files").and_then(|(_, v)| v.parse().ok());
    let stall_files: usize = o.iter().find(|(k, _)| *k == "--l0-write-stall-threshold-files").and_then(|(_, v)| v.parse().ok()).unwrap_or(12);
    {
        let mut r = slot.lock().unwrap();
        r.tag = tag.to_string();
        r.sample = Some(serde_json::json!({"class": tag, "options": o.iter().map(|(k, v)| format!("{k}={v}")).collect::<Vec<_>>(), "writers": n_w, "compaction_threads": compactors}));
    }
    let daemons = start_daemons_noting(&kvs, compactors, slot);
    let mut handles = Vec::new();
    for t in 0..n_w {
        let kvs = Arc::clone(&kvs);
        let mut rng = rng.fork();
        let n = rng.range(2, 6);
        let slot3 = Arc::clone(slot);
        handles.push(thread::spawn(move || {
            // Structural note for finding F-C20-4.  Level 0 is filled by the flush thread, so the
            // writers note what the relieving compaction will need once level 0 has reached the
            // stall threshold: at least that many tables plus the present overlap in level 1.
            let note = |kvs: &Arc<KeyValueStore>| {
                if let Some(mof) = mof {
                    let lv = kvs.verif_tree().verif_levels();
                    if !lv[0].is_empty() {
                        let need = lv[0].len().max(stall_files) + level1_intake(&lv);
                        if need >= mof {
                            let mut r = slot3.lock().unwrap();
                            if !r.tag.contains("max-open-files") {
                                r.tag = format!("{}:level-0-compaction-needs-at-least-max-open-files", r.tag);
                            }
                        }
                    }
                }
            };
            for i in 0..n {
                let k = key(rng.usize_below(6));
                note(&kvs);
                let r = if rng.chance(1, 6) { kvs.del(&k) } else { kvs.put(&k, &value((t as u64) << 32 | i, 40)) };
                if let Err(e) = r {
                    violation("write-error", format!("{e}"));
                }
                note(&kvs);
            }
        }));
    }
    for h in handles {
        if h.join().is_err() {
            violation("client-panicked", "a writer panicked".into());
        }
    }
    // every triggered flush gets ingested (this is where a stalled ingest would hang)
    kvs.verif_wait_flush_idle();
    let work = kvs.verif().work_done();
    stop_daemons(&kvs, daemons, "");
    ledger_after_stalls(&dir);
    let mut r = slot.lock().unwrap();
    r.order_hash = rng::mix(&[seed, work]);
    r.nontrivial = work > 0;
    r.steps = work;
    *r.probes.entry(format!("liveness_kvs_{tag}")).or_insert(0) += 1;
    if tower {
        *r.probes.entry("liveness_kvs_started_from_a_full_tower".into()).or_insert(0) += 1;
    }
    *r.probes.entry("liveness_background_work_units".into()).or_insert(0) += work;
    r.sample = Some(serde_json::json!({"class": tag, "options": o.iter().map(|(k, v)| format!("{k}={v}")).collect::<Vec<_>>(), "writers": n_w, "compaction_threads": compactors}));
    drop(r);
    drop(kvs);
    let _ = std::fs::remove_dir_all(&dir);
}

pub fn tree_liveness(seed: u64, worker: usize, slot: &Slot) {
    let mut rng = Rng::new(seed);
    let dir = fresh_dir(worker, "tlive");
    let (o, tag) = thresholds(&mut rng);
    let mut ts = 0u64;
    // One execution in three starts from a full tower: sixteen overlapping generations ingested
    // with the thresholds out of the way and no compaction, then a reopen (recovery stacks one
    // generation per level).  From there no trivial move is possible and the level-0 merge needs
    // more than one input, so small limits bite from the first ingest on.  Drawn from a stream of
    // its own so that the other draws of the scenario stay what they were.
    let mut trng = Rng::new(rng::mix(&[seed, 0x746f776572]));
    let tower = trng.chance(1, 3);
    if tower {
        let pre: Vec<(&'static str, String)> = vec![
            ("--l0-mandatory-compaction-threshold-files", "64".to_string()),
            ("--l0-write-stall-threshold-files", "64".to_string()),
            ("--max-compaction-files", "64".to_string()),
        ];
        let t0 = LsmTree::open(options(&dir.join("db"), &pre)).unwrap_or_else(|e| violation("open-error", format!("{e}")));
        for g in 0..16 {
            let path = dir.join(format!("tower-{g}.sst"));
            let mut b = SstBuilder::new(SstOptions::default(), &path).unwrap_or_else(|e| violation("builder-error", format!("{e}")));
            for k in 0..6 {
                if k == 0 || trng.chance(1, 3) {
                    ts += 1;
                    b.put(&key(k), ts, &value(ts, 30)).unwrap_or_else(|e| violation("builder-error", format!("{e}")));
                }
            }
            drop(b.seal().unwrap_or_else(|e| violation("builder-error", format!("{e}"))));
            t0.ingest(&path).unwrap_or_else(|e| violation("ingest-error", format!("tower prelude: {e}")));
        }
        drop(t0);
    }
    let tree = Arc::new(LsmTree::open(options(&dir.join("db"), &o)).unwrap_or_else(|e| violation("open-error", format!("{e}"))));
    let stall_bytes: Option<u64> = o.iter().find(|(k, _)| *k == "--l0-write-stall-threshold-bytes").and_then(|(_, v)| v.parse().ok());
    // tables with overlapping key ranges, built before the threads start
    let n_clients = rng.range(1, 3) as usize;
    // from a tower, more often several clients at once: two ingests held back at the same moment
    // is what tells "wake every waiter" from "wake one" (seeded change C20-f)
    let n_clients = if tower && trng.chance(2, 3) { 3 + trng.usize_below(2) } else { n_clients };
    let mut plans: Vec<Vec<PathBuf>> = Vec::new();
    let mut total = 0;
    for c in 0..n_clients {
        let mut files = Vec::new();
        for f in 0..rng.range(1, 4) {
            let path = dir.join(format!("in-{c}-{f}.sst"));
            let mut b = SstBuilder::new(SstOptions::default(), &path).unwrap_or_else(|e| violation("builder-error", format!("{e}")));
            let mut keys: Vec<usize> = (0..6).filter(|_| rng.chance(1, 2)).collect();
            if keys.is_empty() {
                keys.push(rng.usize_below(6));
            }
            // with a byte threshold in force, some tables are bigger than the threshold itself
            let pad = match stall_bytes {
                Some(b) if rng.chance(1, 3) => ((b / 2) as usize).min(30_000),
                _ => 30,
            };
            for k in keys {
                ts += 1;
                b.put(&key(k), ts, &value(ts, pad)).unwrap_or_else(|e| violation("builder-error", format!("{e}")));
            }
            drop(b.seal().unwrap_or_else(|e| violation("builder-error", format!("{e}"))));
            files.push(path);
            total += 1;
        }
        plans.push(files);
    }
    let compactors = rng.range(1, 3) as usize;
    {
        let mut r = slot.lock().unwrap();
        r.tag = tag.to_string();
        r.sample = Some(serde_json::json!({"class": tag, "options": o.iter().map(|(k, v)| format!("{k}={v}")).collect::<Vec<_>>(), "ingested_tables": total, "compaction_threads": compactors}));
    }
    let mut daemons = Vec::new();
    for _ in 0..compactors {
        let t = Arc::clone(&tree);
        let slot2 = Arc::clone(slot);
        daemons.push(thread::spawn(move || {
            t.compaction_thread().map_err(|e| {
                let e = format!("{e}");
                note_daemon_exit(&slot2, if e.contains("too-many-open-files") { "max-open-files" } else { "other" });
                e
            })
        }));
    }
    let mut handles = Vec::new();
    let mof: Option<usize> = o.iter().find(|(k, _)| *k == "--max-open-files").and_then(|(_, v)| v.parse().ok());
    // From a tower the clients that have a second table meet before they ingest it, so that
    // several ingests arrive at a full level 0 together.
    let meeting = plans.iter().filter(|f| f.len() >= 2).count();
    let barrier = if tower && meeting >= 2 { Some(Arc::new(shuttle::sync::Barrier::new(meeting))) } else { None };
    for files in plans {
        let t = Arc::clone(&tree);
        let slot3 = Arc::clone(slot);
        let barrier = barrier.clone();
        handles.push(thread::spawn(move || {
            let note = |t: &Arc<LsmTree>| {
                    // Structural note for finding F-C20-4: the compaction that relieves level 0 takes
                    // all of level 0 plus what it overlaps in level 1; once that is as many files as
                    // `max_open_files` allows (`may_choose_compaction` refuses inputs >= max_open_files)
                    // the selector can never choose it, however many tables follow.
                    if let Some(mof) = mof {
                        let lv = t.verif_levels();
                        if !lv[0].is_empty() {
                            let need = lv[0].len() + level1_intake(&lv);
                            if need >= mof {
                                let mut r = slot3.lock().unwrap();
                                if !r.tag.contains("max-open-files") {
                                    r.tag = format!("{}:level-0-compaction-needs-at-least-max-open-files", r.tag);
                                }
                            }
                        }
                    }
            };
            let meets = files.len() >= 2;
            for (fi, f) in files.into_iter().enumerate() {
                if fi == 1 {
                    if let Some(b) = barrier.as_ref() {
                        b.wait();
                    }
                }
                note(&t);
                if let Err(e) = t.ingest(&f) {
                    let e = format!("{e}");
                    if e.contains("too-many-open-files") {
                        // an explicit error is a return; liveness is about calls that never return
                        if fi == 0 && meets {
                            // the others are not left waiting for this client
                            if let Some(b) = barrier.as_ref() {
                                b.wait();
                            }
                        }
                        return;
                    }
                    violation("ingest-error", e);
                }
                note(&t);
            }
        }));
    }
    for h in handles {
        if h.join().is_err() {
            violation("client-panicked", "an ingesting thread panicked".into());
        }
    }
    let work = tree.verif().work_done();
    tree.verif_request_stop();
    for d in daemons {
        match d.join() {
            Ok(Ok(())) => {}
            Ok(Err(e)) if e.contains("too-many-open-files") => {}
            Ok(Err(e)) => violation("daemon-returned-error", e),
            Err(_) => violation("daemon-panicked", "compaction thread panicked".into()),
        }
    }
    ledger_after_stalls(&dir.join("db"));
    let mut r = slot.lock().unwrap();
    r.order_hash = rng::mix(&[seed, work]);
    r.nontrivial = work > 0;
    r.steps = work;
    *r.probes.entry(format!("liveness_tree_{tag}")).or_insert(0) += 1;
    if tower {
        *r.probes.entry("liveness_tree_started_from_a_full_tower".into()).or_insert(0) += 1;
    }
    *r.probes.entry("liveness_background_work_units".into()).or_insert(0) += work;
    r.sample = Some(serde_json::json!({"class": tag, "options": o.iter().map(|(k, v)| format!("{k}={v}")).collect::<Vec<_>>(), "ingested_tables": total, "compaction_threads": compactors}));
    drop(r);
    drop(tree);
    let _ = std::fs::remove_dir_all(&dir);
    let _: BTreeMap<u8, u8> = BTreeMap::new();
}
