//! C17 under Miri (thorough tier): the same completed-before / started-before oracle as the
//! shuttle scenario, on std threads, so that Miri's weak-memory emulation, data-race detector and
//! use-after-free detection see the real atomics orderings.  The scenario index comes from argv.

use std::sync::atomic::{AtomicU64, Ordering};
use std::sync::Arc;

fn bit(m: u64, k: u64) -> bool {
    m & (1 << k) != 0
}

fn skiplist(variant: u64) {
    let list: Arc<skipfree::SkipList<u64, u64, 4>> = Arc::new(skipfree::SkipList::default());
    let started = Arc::new(AtomicU64::new(0));
    let completed = Arc::new(AtomicU64::new(0));
    let key_sets: Vec<Vec<u64>> = match variant % 3 {
        0 => vec![vec![1, 3, 5], vec![2, 4, 6]],
        1 => vec![vec![6, 5, 4], vec![3, 2, 1]],
        _ => vec![vec![2, 9, 4], vec![7, 3, 8]],
    };
    let mut hs = Vec::new();
    for ks in key_sets.clone() {
        let (l, s, c) = (list.clone(), started.clone(), completed.clone());
        hs.push(std::thread::spawn(move || {
            for k in ks {
                s.fetch_or(1 << k, Ordering::SeqCst);
                l.insert(k, k * 10);
                c.fetch_or(1 << k, Ordering::SeqCst);
            }
        }));
    }
    for _ in 0..2 {
        let (l, s, c) = (list.clone(), started.clone(), completed.clone());
        hs.push(std::thread::spawn(move || {
            for round in 0..3u64 {
                let c0 = c.load(Ordering::SeqCst);
                let mut it = l.iter();
                it.seek_to_first();
                let mut seen = Vec::new();
                while it.is_valid() {
                    assert_eq!(*it.value(), *it.key() * 10);
                    seen.push(*it.key());
                    it.next();
                }
                let s1 = s.load(Ordering::SeqCst);
                assert!(seen.windows(2).all(|w| w[0] < w[1]), "not increasing {seen:?}");
                for k in 0..16 {
                    if bit(c0, k) {
                        assert!(seen.contains(&k), "missed completed insert {k}: {seen:?}");
                    }
                }
                for k in seen.iter() {
                    assert!(bit(s1, *k), "found key nobody inserted {k}");
                }
                let k = (round * 3 + 1) % 10;
                let c1 = c.load(Ordering::SeqCst);
                let found = l.contains(&k);
                let s2 = s.load(Ordering::SeqCst);
                assert!(!(bit(c1, k) && !found));
                assert!(!(found && !bit(s2, k)));
                it.seek_to_last();
                it.prev();
                if it.is_valid() {
                    assert!(bit(s.load(Ordering::SeqCst), *it.key()));
                }
            }
        }));
    }
    for h in hs {
        h.join().unwrap();
    }
    let mut it = list.iter();
    it.seek_to_first();
    let mut fin = Vec::new();
    while it.is_valid() {
        fin.push(*it.key());
        it.next();
    }
    let mut want: Vec<u64> = key_sets.into_iter().flatten().collect();
    want.sort();
    assert_eq!(fin, want);
    // iterator outlives the list
    let mut it = list.iter();
    it.seek_to_first();
    drop(list);
    let mut n = 0;
    while it.is_valid() {
        n += *it.key();
        it.next();
    }
    assert!(n > 0);
}

fn list() {
    let l: Arc<listfree::List<u64>> = Arc::new(listfree::List::default());
    let completed = Arc::new(AtomicU64::new(0));
    let mut hs = Vec::new();
    for t in 0..2u64 {
        let (l, c) = (l.clone(), completed.clone());
        hs.push(std::thread::spawn(move || {
            for s in 0..3 {
                l.prepend(t * 8 + s);
                c.fetch_or(1 << (t * 8 + s), Ordering::SeqCst);
            }
        }));
    }
    {
        let (l, c) = (l.clone(), completed.clone());
        hs.push(std::thread::spawn(move || {
            for _ in 0..3 {
                let c0 = c.load(Ordering::SeqCst);
                let seen: Vec<u64> = l.iter().copied().collect();
                for id in 0..16 {
                    if bit(c0, id) {
                        assert!(seen.contains(&id));
                    }
                }
                for t in 0..2u64 {
                    let mine: Vec<u64> = seen.iter().copied().filter(|x| x / 8 == t).collect();
                    assert!(mine.windows(2).all(|w| w[0] > w[1]), "not newest first {mine:?}");
                }
            }
        }));
    }
    for h in hs {
        h.join().unwrap();
    }
    assert_eq!(l.iter().count(), 6);
}

fn main() {
    let v: u64 = std::env::args().nth(1).and_then(|s| s.parse().ok()).unwrap_or(0);
    skiplist(v);
    list();
    println!("miri17 variant {v} ok");
}
